// Workload family `sync`: Latch, CompletionEvent (C21), timed waits (C20), RWLock (C22),
// DistributedRWLock (C23), AsyncRequest (C24), ResourcePool (C25).
#include <dispenso/completion_event.h>
#include <dispenso/latch.h>

#include <atomic>
#include <memory>
#include <thread>
#include <vector>

#include "hx.h"

using namespace hx;

// ---------------------------------------------------------------------------------------------
// C21 — Latch
// ---------------------------------------------------------------------------------------------
namespace {

struct LatchRun {
  int count;
  int invoked; // decrements whose call has been invoked
  int maxN;
  char lastOp[64];
  char cell[16]; // C10: one cell per decrementing operation, written before it, read after a wait returns
  int nCells;
};
static void latchWrote(LatchRun& run, int k) {
  raceW(&run.cell[k & 15], "before-count_down");
}
static void latchReadAll(LatchRun& run) {
  for (int k = 0; k < run.nCells && k < 16; ++k)
    raceR(&run.cell[k], "after-latch-wait");
}
static LatchRun* g_latch;

static void latchHang(char* buf, size_t n) {
  snprintf(buf, n, "[latch count=%d invoked=%d maxN=%d]", g_latch->count, g_latch->invoked, g_latch->maxN);
}

static void wlLatch() {
  LatchRun run;
  memset(&run, 0, sizeof run);
  g_latch = &run;
  sim_set_hang_describer(latchHang);
  int count = range(1, 6);
  run.count = count;
  int nWaiters = range(0, 3);
  sim_note("count", count);
  sim_note("waiters", nWaiters);
  // split `count` into operations
  struct Op {
    int kind; // 0 count_down(n), 1 arrive_and_wait
    int n;
    int idx;
  };
  std::vector<Op> ops;
  int left = count;
  while (left > 0) {
    Op op;
    op.kind = chance(1, 3) ? 1 : 0;
    op.n = op.kind ? 1 : range(1, left);
    if (op.n > run.maxN)
      run.maxN = op.n;
    left -= op.n;
    op.idx = (int)ops.size();
    ops.push_back(op);
  }
  sim_note("ops", (int64_t)ops.size());
  sim_note("maxn", run.maxN);
  run.nCells = (int)ops.size();
  if (nWaiters == 0) {
    bool anyArrive = false;
    for (auto& o : ops)
      anyArrive |= o.kind == 1;
    if (!anyArrive)
      nWaiters = 1;
  }
  int nThreads = range(1, 3);
  auto latchOwner = hx::heapNew<dispenso::Latch>((uint32_t)count); // heap: store-buffer fault
  dispenso::Latch& latch = *latchOwner;
  std::vector<std::thread> threads;
  // distribute ops round-robin over decrementer threads
  std::vector<std::vector<Op>> perThread((size_t)nThreads);
  for (size_t i = 0; i < ops.size(); ++i)
    perThread[i % (size_t)nThreads].push_back(ops[i]);
  // an arrive_and_wait blocks its thread; give each its own thread so the plan cannot self-deadlock
  for (int w = 0; w < nWaiters; ++w) {
    threads.emplace_back([&latch, &run]() {
      sim_work((int)(sim_step() % 3));
      latch.wait();
      if (run.invoked < run.count)
        sim_fail("latch-early-return", "wait() returned with %d of %d decrements invoked", run.invoked, run.count);
      if (!latch.try_wait())
        sim_fail("latch-early-return", "wait() returned but try_wait() is false");
      latchReadAll(run);
    });
  }
  for (int t = 0; t < nThreads; ++t) {
    for (const Op& op : perThread[(size_t)t]) {
      if (op.kind == 1) {
        threads.emplace_back([&latch, &run, idx = op.idx]() {
          latchWrote(run, idx);
          run.invoked += 1;
          latch.arrive_and_wait();
          if (run.invoked < run.count)
            sim_fail("latch-early-return", "arrive_and_wait() returned with %d of %d decrements invoked",
                     run.invoked, run.count);
          latchReadAll(run);
        });
      }
    }
    threads.emplace_back([&latch, &run, ops = perThread[(size_t)t]]() {
      for (const Op& op : ops) {
        if (op.kind == 0) {
          sim_work(1);
          latchWrote(run, op.idx);
          run.invoked += op.n;
          latch.count_down((uint32_t)op.n);
        }
      }
    });
  }
  for (auto& th : threads)
    th.join();
  if (!latch.try_wait())
    sim_fail("latch-count-nonzero", "all decrements done but try_wait() false");
}

// ---------------------------------------------------------------------------------------------
// C21 — CompletionEvent
// ---------------------------------------------------------------------------------------------
static void wlCEvent() {
  int nWaiters = range(1, 4);
  int nPollers = range(0, 2);
  int delay = range(0, 40);
  sim_note("waiters", nWaiters);
  sim_note("pollers", nPollers);
  auto evOwner = hx::heapNew<dispenso::CompletionEvent>(); // heap: store-buffer fault
  dispenso::CompletionEvent& ev = *evOwner;
  bool notified = false; // set just before notify() is invoked
  char cell = 0;         // C10: written before notify(), read once completion was observed
  std::vector<std::thread> threads;
  for (int w = 0; w < nWaiters; ++w) {
    threads.emplace_back([&]() {
      ev.wait();
      if (!notified)
        sim_fail("cevent-early-return", "wait() returned before notify() was invoked");
      if (!ev.completed())
        sim_fail("cevent-early-return", "wait() returned but completed() is false");
      raceR(&cell, "after-event-wait");
    });
  }
  for (int p = 0; p < nPollers; ++p) {
    threads.emplace_back([&]() {
      for (int i = 0; i < 50; ++i) {
        if (ev.completed()) {
          if (!notified)
            sim_fail("cevent-early-return", "completed() true before notify() was invoked");
          raceR(&cell, "after-event-completed");
          break;
        }
        sim_work(2);
      }
    });
  }
  threads.emplace_back([&]() {
    sim_work(delay);
    notified = true;
    raceW(&cell, "before-notify");
    ev.notify();
  });
  for (auto& th : threads)
    th.join();
}

} // namespace

HX_WORKLOAD("C21", "latch", wlLatch, SF_DELAY_ONLY | SF_TSO, 400000, 400000, 3);
HX_WORKLOAD("C21", "cevent", wlCEvent, SF_DELAY_ONLY | SF_TSO, 400000, 400000, 2);
// with spurious wakes the waits must still not return early
HX_WORKLOAD("C21", "latch-spurious", wlLatch, SF_ALL | SF_TSO, 400000, 400000, 2);
HX_WORKLOAD("C21", "cevent-spurious", wlCEvent, SF_ALL | SF_TSO, 400000, 400000, 1);
