// Workload family `parfor`: parallel_for (C12 coverage, C13 granularity, C14 state exclusivity,
// C48 maxThreads) and for_each (C15, C48).
#include <dispenso/for_each.h>
#include <dispenso/parallel_for.h>

#include <deque>
#include <forward_list>
#include <limits>
#include <list>
#include <memory>
#include <thread>
#include <vector>

#include "hx.h"

using namespace hx;

namespace {

enum Focus { F_COVER = 12, F_GRAN = 13, F_STATE = 14, F_MAXT = 48 };

struct State {
  int inUse = 0;
  int uses = 0;
  int magic = 0x5151;
};

struct Run {
  // results recorded by bodies
  std::vector<unsigned char> cover; // per offset
  uint64_t n = 0;
  int inflight = 0;
  int maxInflight = 0;
  int invocations = 0;
  bool outside = false;
  bool overlap = false;
  bool stateClash = false;
  std::vector<uint64_t> chunkSizes; // size of each invocation
  std::vector<uint64_t> chunkEnds;  // offset of its end
  int raggedNotAtEnd = 0;
  int ragged = 0;
  char outsideMsg[160];
  bool failFast = false; // C12: report an out-of-range chunk at once (the run may never finish)
  char keyPrefix[48];
  char inputCell = 0;    // C10: written by the caller before the loop, read by every body
  const char* stateLabel = "parfor-state";
};

template <typename T>
struct Ops {
  using U = typename std::make_unsigned<T>::type;
  static uint64_t off(T v, T start) {
    return (uint64_t)(U)((U)v - (U)start);
  }
};

template <typename T>
static void record(Run& r, T start, T end, T b, T e, uint32_t gran) {
  uint64_t ob = Ops<T>::off(b, start), oe = Ops<T>::off(e, start);
  if (b < start || e > end || b > e || oe > r.n || ob > oe) {
    if (!r.outside)
      snprintf(r.outsideMsg, sizeof r.outsideMsg, "chunk [%lld,%lld) outside [%lld,%lld)", (long long)b, (long long)e,
               (long long)start, (long long)end);
    r.outside = true;
    if (r.failFast) {
      char key[160];
      bool touches = (uint64_t)((typename Ops<T>::U)std::numeric_limits<T>::max() - (typename Ops<T>::U)end) == 0;
      snprintf(key, sizeof key, "%s:outside:%s", r.keyPrefix, touches ? "touches-max" : "interior");
      sim_fail(key, "%s", r.outsideMsg);
    }
    return;
  }
  for (uint64_t i = ob; i < oe; ++i) {
    raceW(&r.cover[(size_t)i], "parfor-output");
    if (r.cover[(size_t)i]++)
      r.overlap = true;
  }
  r.invocations++;
  uint64_t sz = oe - ob;
  r.chunkSizes.push_back(sz);
  r.chunkEnds.push_back(oe);
  if (gran > 1 && sz % gran != 0) {
    r.ragged++;
    if (oe != r.n)
      r.raggedNotAtEnd++;
  }
}

static const char* typeName(int ti) {
  static const char* n[] = {"i8", "u8", "i16", "u16", "i32", "u32", "i64", "u64"};
  return n[ti];
}

struct Cfg {
  int typeIdx;
  int poolThreads;
  int chunking; // 0 static, 1 adaptive, 2 explicit
  uint64_t chunk;
  uint32_t maxThreads; // 0xffffffff = default
  uint32_t minItems;
  uint32_t gran;
  bool wait;
  bool stateful;
  int container; // 0 vector 1 deque 2 list
  bool reuse;
  int nest; // 0 none, 1 inside a pool task, 2 inside another parallel_for body, 3 inside a task on a chosen worker
  bool indexFunctor;
  int startMode; // 0 zero 1 near-min 2 touches-max 3 random
  int work;      // simulation points inside each body
};

template <typename T, typename Cont>
static void invoke(dispenso::TaskSet& ts, const Cfg& c, T start, T end, Run& r, int focus) {
  dispenso::ParForOptions o;
  if (c.maxThreads != 0xffffffffu)
    o.maxThreads = c.maxThreads;
  o.wait = c.wait;
  o.minItemsPerChunk = c.minItems;
  o.granularity = c.gran;
  o.reuseExistingState = c.reuse;
  o.defaultChunking = c.chunking == 1 ? dispenso::ParForChunking::kAdaptive : dispenso::ParForChunking::kStatic;
  uint32_t gran = c.chunking == 2 ? 1 : c.gran;
  int work = c.work;
  auto bodyCommon = [&r, start, end, gran, work](T b, T e) {
    r.inflight++;
    if (r.inflight > r.maxInflight)
      r.maxInflight = r.inflight;
    sim_event(3, (int64_t)b, (int64_t)e);
    raceR(&r.inputCell, "parfor-input");
    sim_work(work);
    record<T>(r, start, end, b, e, gran);
    sim_work(1);
    r.inflight--;
  };
  Cont states;
  if (c.reuse) {
    int pre = range(0, 3);
    for (int i = 0; i < pre; ++i)
      states.emplace_back();
  }
  auto gen = []() { return State(); };
  dispenso::ChunkedRange<T> cr = c.chunking == 2
      ? dispenso::ChunkedRange<T>(start, end, (T)c.chunk)
      : dispenso::makeChunkedRange(start, end, o.defaultChunking);
  if (c.stateful) {
    auto f = [&r, bodyCommon](State& s, T b, T e) {
      if (s.magic != 0x5151)
        r.stateClash = true;
      if (s.inUse++)
        r.stateClash = true;
      raceW(&s, r.stateLabel);
      s.uses++;
      bodyCommon(b, e);
      s.inUse--;
    };
    dispenso::parallel_for(ts, states, gen, cr, f, o);
    if (!c.wait)
      ts.wait();
    // An empty range invokes nothing and (as documented: "one State per executing thread") may
    // leave the container untouched; the "at least one element" clause is checked for n >= 1.
    if (states.empty() && focus == F_STATE && r.n > 0)
      sim_fail("states-empty", "states container is empty after parallel_for over a non-empty range");
  } else if (c.indexFunctor && c.chunking != 2) {
    auto f = [bodyCommon](T i) { bodyCommon(i, (T)(i + 1)); };
    dispenso::parallel_for(ts, start, end, f, o);
    if (!c.wait)
      ts.wait();
  } else {
    auto f = [bodyCommon](T b, T e) { bodyCommon(b, e); };
    dispenso::parallel_for(ts, cr, f, o);
    if (!c.wait)
      ts.wait();
  }
}

template <typename T>
static void runTyped(const Cfg& c, int focus) {
  using L = std::numeric_limits<T>;
  Run r;
  // size and start
  uint64_t maxN = sizeof(T) == 1 ? 255 : 300;
  uint64_t n;
  switch (pick(4)) {
    case 0:
      n = (uint64_t)range(0, 12);
      break;
    case 1:
      n = (uint64_t)range(0, 64);
      break;
    default:
      n = (uint64_t)range(0, (int)maxN);
      break;
  }
  if (sizeof(T) == 1 && std::is_signed<T>::value && n > 255)
    n = 255;
  T start;
  using U = typename std::make_unsigned<T>::type;
  switch (c.startMode) {
    case 0:
      start = 0;
      if ((uint64_t)L::max() < n)
        start = L::min();
      break;
    case 1:
      start = L::min();
      break;
    case 2:
      start = (T)((U)L::max() - (U)n); // range touches the type's maximum
      break;
    default: {
      // random but representable
      U span = (U)((U)L::max() - (U)L::min());
      U room = (U)(span - (U)n);
      uint64_t modulus = (uint64_t)room + 1; // 0 when the whole 64-bit space is available
      uint64_t x = (uint64_t)pick(1u << 30) * 2654435761ull * 40503ull;
      U offv = (U)(modulus ? x % modulus : x);
      start = (T)((U)L::min() + offv);
      break;
    }
  }
  // keep the range representable: [start, start+n] within T
  if ((uint64_t)((U)L::max() - (U)start) < n)
    start = (T)((U)L::max() - (U)n);
  T end = (T)((U)start + (U)n);
  r.n = n;
  r.cover.assign((size_t)n, 0);
  r.failFast = focus == F_COVER;
  snprintf(r.keyPrefix, sizeof r.keyPrefix, "%s:%s", typeName(c.typeIdx),
           c.chunking == 0 ? "static" : (c.chunking == 1 ? "adaptive" : "explicit"));
  sim_note("type", c.typeIdx);
  sim_note("n", (int64_t)n);
  sim_note("startmode", c.startMode);
  sim_note("chunking", c.chunking);
  sim_note("wait", c.wait);
  sim_note("gran", c.gran);
  sim_note("maxt", c.maxThreads == 0xffffffffu ? -1 : (int64_t)c.maxThreads);
  sim_note("pool", c.poolThreads);
  sim_note("nest", c.nest);
  sim_note("stateful", c.stateful * 4 + c.container);

  char key[200];
  const char* chunkName = c.chunking == 0 ? "static" : (c.chunking == 1 ? "adaptive" : "explicit");
  // Small adaptive loops are demoted to the static path by the library (adjustChunkSizing); label
  // them as what they execute as, so one defect of the static path has one key.
  if (c.chunking == 1) {
    uint64_t parSize = c.gran > 1 ? n - n % c.gran : n;
    uint64_t N = (uint64_t)c.poolThreads;
    uint64_t mt = std::min<uint64_t>(std::max<uint32_t>(c.maxThreads == 0xffffffffu ? 0x7fffffffu : c.maxThreads, 1), N + 1);
    bool demoted = false;
    if (c.minItems > 1) {
      uint64_t maxWorkers = parSize / c.minItems;
      if (maxWorkers < mt)
        mt = maxWorkers;
      demoted = mt > 0 && parSize / (mt + (c.wait ? 1 : 0)) < c.minItems;
    } else {
      demoted = parSize <= N + (c.wait ? 1 : 0);
    }
    if (demoted)
      chunkName = "static";
  }
  raceW(&r.inputCell, "parfor-input");
  dispenso::ThreadPool pool((size_t)c.poolThreads);
  auto core = [&]() {
    dispenso::TaskSet ts(pool);
    switch (c.container) {
      case 0:
        invoke<T, std::vector<State>>(ts, c, start, end, r, focus);
        break;
      case 1:
        invoke<T, std::deque<State>>(ts, c, start, end, r, focus);
        break;
      default:
        invoke<T, std::list<State>>(ts, c, start, end, r, focus);
        break;
    }
  };
  if (c.nest == 0) {
    core();
  } else if (c.nest == 1) {
    dispenso::TaskSet outer(pool);
    outer.schedule(core, dispenso::ForceQueuingTag());
    outer.wait();
  } else if (c.nest == 3) {
    // from an ordinary task on a plan-chosen pool worker: one task per worker, all held at a harness
    // barrier so that each worker has exactly one; the k-th to arrive issues the loop, the others return
    // and are free to take its chunks (which worker the caller is decides which chunk it keeps)
    int nTasks = std::max(1, c.poolThreads);
    int chosen = (int)pick((uint32_t)nTasks);
    int arrived = 0;
    dispenso::TaskSet outer(pool);
    for (int t = 0; t < nTasks; ++t)
      outer.schedule(
          [&]() {
            int mine = arrived++;
            for (int i = 0; i < 200000 && arrived < nTasks; ++i)
              sim_sleep_ns(1000);
            if (mine == chosen)
              core();
          },
          dispenso::ForceQueuingTag());
    outer.wait();
  } else {
    dispenso::TaskSet outer(pool);
    bool done = false;
    dispenso::parallel_for(outer, 0, 3, [&](int i) {
      if (i == 1 && !done) {
        done = true;
        core();
      }
    });
  }

  bool touches = (uint64_t)((U)L::max() - (U)end) == 0;
  for (uint64_t i = 0; i < n; ++i)
    raceR(&r.cover[(size_t)i], "parfor-output");
  if (focus == F_COVER) {
    if (r.outside) {
      snprintf(key, sizeof key, "%s:%s:outside:%s", typeName(c.typeIdx), chunkName, touches ? "touches-max" : "interior");
      sim_fail(key, "%s", r.outsideMsg);
    }
    if (r.inflight != 0) {
      snprintf(key, sizeof key, "%s:%s:late:wait%d", typeName(c.typeIdx), chunkName, c.wait);
      sim_fail(key, "%d invocation(s) still running after %s returned", r.inflight, c.wait ? "parallel_for" : "wait()");
    }
    for (uint64_t i = 0; i < n; ++i) {
      if (r.cover[(size_t)i] != 1) {
        snprintf(key, sizeof key, "%s:%s:%s:%s", typeName(c.typeIdx), chunkName, r.cover[(size_t)i] ? "overlap" : "gap",
                 touches ? "touches-max" : "interior");
        sim_fail(key, "index start+%llu covered %d times (n=%llu start=%lld)", (unsigned long long)i, r.cover[(size_t)i],
                 (unsigned long long)n, (long long)start);
      }
    }
  } else if (focus == F_GRAN) {
    if (c.gran > 1 && c.chunking != 2 && !r.outside) {
      if (r.ragged > 1 || r.raggedNotAtEnd > 0) {
        snprintf(key, sizeof key, "%s:wait%d:%s", chunkName, c.wait,
                 ((((__int128)start % (__int128)c.gran) + c.gran) % c.gran) != 0 ? "start-unaligned" : "start-aligned");
        sim_fail(key, "granularity %u: %d invocation sizes are not multiples, %d of them do not end at the range end (n=%llu)",
                 c.gran, r.ragged, r.raggedNotAtEnd, (unsigned long long)n);
      }
    }
  } else if (focus == F_STATE) {
    if (r.stateClash) {
      snprintf(key, sizeof key, "state-shared:%s:wait%d:%s", chunkName, c.wait,
               (c.gran > 1 && n % c.gran) ? "has-tail" : "no-tail");
      sim_fail(key, "one state object was used by two invocations at the same time");
    }
  } else if (focus == F_MAXT) {
    uint32_t mt = c.maxThreads == 0xffffffffu ? 0x7fffffff : c.maxThreads;
    int limit = (int)std::max<uint32_t>(mt, 1);
    if (r.maxInflight > limit) {
      snprintf(key, sizeof key, "parallel_for:%s:wait%d:%s", chunkName, c.wait, (c.gran > 1 && n % c.gran) ? "has-tail" : "no-tail");
      sim_fail(key, "maxThreads=%u but %d invocations ran concurrently", c.maxThreads, r.maxInflight);
    }
  }
}

static void runCfg(int focus) {
  tagsReset();
  Cfg c;
  c.typeIdx = (int)pick(8);
  if (focus != F_COVER)
    c.typeIdx = chance(1, 2) ? 4 : c.typeIdx; // mostly int32 when types are not the point
  c.poolThreads = range(0, 5);
  c.chunking = (int)pick(3);
  if (focus == F_GRAN || focus == F_STATE)
    c.chunking = (int)pick(2);
  c.chunk = (uint64_t)range(1, 40);
  c.maxThreads = chance(1, 2) ? 0xffffffffu : (uint32_t)range(0, c.poolThreads + 1);
  if (focus == F_MAXT)
    c.maxThreads = (uint32_t)range(0, c.poolThreads + 1);
  c.minItems = chance(2, 3) ? 1 : (uint32_t)range(1, 8);
  c.gran = 1;
  if (focus == F_GRAN || chance(1, 3)) {
    static const uint32_t gs[] = {2, 3, 4, 7, 8, 16, 33, 64};
    c.gran = oneOf(gs);
  }
  c.wait = !chance(1, 3);
  if (focus == F_STATE || focus == F_MAXT) {
    // the granularity tail and the no-wait paths are where state sharing / extra concurrency
    // could come from: give them half of the runs
    if (chance(1, 2)) {
      static const uint32_t gs2[] = {2, 3, 4, 7};
      c.gran = oneOf(gs2);
    }
    c.wait = chance(1, 2);
  }
  c.stateful = focus == F_STATE ? true : chance(1, 3);
  c.container = (int)pick(3);
  c.reuse = chance(1, 3);
  c.nest = chance(1, 2) ? 0 : range(1, 3);
  if (c.nest == 3 && chance(2, 3)) {
    // a pool worker as the waiting caller of a static loop keeps "its own" chunk (ring index -> chunk
    // index); that mapping only matters when the loop uses fewer threads than the pool has
    c.wait = true;
    c.chunking = chance(3, 4) ? 0 : c.chunking;
    c.poolThreads = range(2, 5);
    if (chance(2, 3))
      c.maxThreads = (uint32_t)range(1, c.poolThreads);
  }
  // per-index functors hide the chunk boundaries: not usable for the granularity oracle
  c.indexFunctor = focus == F_GRAN ? false : chance(1, 4);
  c.startMode = (int)pick(4);
  c.work = (focus == F_STATE || focus == F_MAXT) ? range(2, 16) : 2;
  // 64-bit adaptive ranges ending at the type's maximum run into the cursor wrap that C12 reports;
  // it is C12's input space, not this check's: keep it out of the other parfor checks
  if (focus != F_COVER && c.typeIdx >= 6 && c.startMode == 2)
    c.startMode = 1;
  if (focus == F_GRAN && chance(1, 2))
    c.startMode = 3;
  switch (c.typeIdx) {
    case 0:
      runTyped<int8_t>(c, focus);
      break;
    case 1:
      runTyped<uint8_t>(c, focus);
      break;
    case 2:
      runTyped<int16_t>(c, focus);
      break;
    case 3:
      runTyped<uint16_t>(c, focus);
      break;
    case 4:
      runTyped<int32_t>(c, focus);
      break;
    case 5:
      runTyped<uint32_t>(c, focus);
      break;
    case 6:
      runTyped<int64_t>(c, focus);
      break;
    default:
      runTyped<uint64_t>(c, focus);
      break;
  }
}

static void wlCover() {
  runCfg(F_COVER);
}
static void wlGran() {
  runCfg(F_GRAN);
}
static void wlState() {
  runCfg(F_STATE);
}
static void wlMaxT() {
  runCfg(F_MAXT);
}

// ---------------------------------------------------------------------------------------------
// for_each (C15, C48)
// ---------------------------------------------------------------------------------------------
struct Elem {
  int count = 0;
};
struct FeRun {
  int inflight = 0;
  int maxInflight = 0;
};

template <typename Cont>
static void forEachRun(int focus, const char* catName) {
  int n = range(0, 60);
  int poolThreads = range(0, 4);
  uint32_t maxThreads = chance(1, 2) ? 0xffffffffu : (uint32_t)range(0, poolThreads + 1);
  if (focus == F_MAXT)
    maxThreads = (uint32_t)range(0, poolThreads + 1);
  bool wait = !chance(1, 3);
  bool useN = chance(1, 2);
  sim_note("n", n);
  sim_note("pool", poolThreads);
  sim_note("maxt", maxThreads == 0xffffffffu ? -1 : (int64_t)maxThreads);
  sim_note("wait", wait);
  Cont c;
  for (int i = 0; i < n; ++i) {
    c.push_front(Elem());
    raceW(&*c.begin(), "foreach-element");
  }
  int extra = range(0, 3); // elements beyond n that must stay untouched (for_each_n)
  FeRun r;
  dispenso::ThreadPool pool((size_t)poolThreads);
  {
    dispenso::TaskSet ts(pool);
    dispenso::ForEachOptions o;
    if (maxThreads != 0xffffffffu)
      o.maxThreads = maxThreads;
    o.wait = wait;
    auto f = [&r](Elem& e) {
      r.inflight++;
      if (r.inflight > r.maxInflight)
        r.maxInflight = r.inflight;
      sim_work(1);
      raceW(&e, "foreach-element");
      e.count++;
      r.inflight--;
    };
    if (useN) {
      for (int i = 0; i < extra; ++i)
        c.push_front(Elem());
      // the extra elements are at the front: start after them
      auto it = c.begin();
      std::advance(it, extra);
      dispenso::for_each_n(ts, it, (size_t)n, f, o);
    } else {
      extra = 0;
      dispenso::for_each(ts, c.begin(), c.end(), f, o);
    }
    if (!wait)
      ts.wait();
  }
  char key[160];
  if (focus == 15) {
    if (r.inflight != 0) {
      snprintf(key, sizeof key, "for_each:%s:late:wait%d", catName, wait);
      sim_fail(key, "%d applications still running after completion", r.inflight);
    }
    int idx = 0;
    for (auto& e : c) {
      raceR(&e, "foreach-element");
      int want = idx < extra ? 0 : 1;
      if (e.count != want) {
        snprintf(key, sizeof key, "for_each:%s:pool%s:wait%d:%s", catName, poolThreads ? "N" : "0", wait,
                 e.count > want ? "dup" : "missed");
        sim_fail(key, "element %d applied %d times (want %d), n=%d", idx - extra, e.count, want, n);
      }
      idx++;
    }
  } else {
    uint32_t mt = maxThreads == 0xffffffffu ? 0x7fffffff : maxThreads;
    int limit = (int)std::max<uint32_t>(mt, 1);
    if (r.maxInflight > limit) {
      snprintf(key, sizeof key, "for_each:%s:wait%d", catName, wait);
      sim_fail(key, "maxThreads=%u but %d applications ran concurrently", maxThreads, r.maxInflight);
    }
  }
}

// std::vector/deque need push_front: wrap
struct VecFront : std::vector<Elem> {
  void push_front(const Elem& e) {
    insert(begin(), e);
  }
};

static void forEachAny(int focus) {
  switch (pick(3)) {
    case 0:
      sim_note("cat", 0);
      forEachRun<VecFront>(focus, "random-access");
      break;
    case 1:
      sim_note("cat", 1);
      forEachRun<std::list<Elem>>(focus, "bidirectional");
      break;
    default:
      sim_note("cat", 2);
      forEachRun<std::forward_list<Elem>>(focus, "forward");
      break;
  }
}
static void wlForEach() {
  forEachAny(15);
}
static void wlForEachMaxT() {
  forEachAny(F_MAXT);
}

} // namespace

HX_WORKLOAD("C12", "cover", wlCover, SF_ALL, 6000000, 6000000, 1);
HX_WORKLOAD("C13", "granularity", wlGran, SF_ALL, 6000000, 6000000, 1);
HX_WORKLOAD("C14", "state", wlState, SF_ALL, 6000000, 6000000, 1);
HX_WORKLOAD("C48", "maxthreads", wlMaxT, SF_ALL, 6000000, 6000000, 2);
HX_WORKLOAD("C48", "foreach-maxthreads", wlForEachMaxT, SF_ALL, 6000000, 6000000, 1);
HX_WORKLOAD("C15", "foreach", wlForEach, SF_ALL, 6000000, 6000000, 1);
