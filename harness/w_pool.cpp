// Workload family `pool`: ThreadPool direct API.
//   C01 exactly-once, C03 resize, C07 idle-pool wake (see w_wake.cpp), C08 accounting,
//   C09 shutdown/resize completes, C47 ForceQueuingTag never inline.
#include <dispenso/thread_pool.h>

#include <memory>
#include <thread>
#include <vector>

#include "hx.h"

using namespace hx;

namespace {

enum Api { A_SCHED = 1, A_SCHED_FQ = 2, A_BULK = 3, A_CHILD = 4, A_CHILD_FQ = 5, A_CHILD_BULK = 6 };
static const char* apiName(int a) {
  switch (a) {
    case A_SCHED:
      return "schedule";
    case A_SCHED_FQ:
      return "schedule-fq";
    case A_BULK:
      return "scheduleBulk";
    case A_CHILD:
      return "task-schedule";
    case A_CHILD_FQ:
      return "task-schedule-fq";
    case A_CHILD_BULK:
      return "task-scheduleBulk";
  }
  return "?";
}

struct PoolCtx {
  dispenso::ThreadPool* pool = nullptr;
  int outstanding = 0; // tags created and not finished (harness-side)
  bool dtorReturned = false;
  int fqTag[256]; // per simulated thread: tag being submitted by a force-queue call in progress (C47)
  PoolCtx() {
    for (int& v : fqTag)
      v = -1;
  }
  const char* fqViolation = nullptr;
};
static PoolCtx* g_ctx;

struct TaskSpec {
  int tag;
  int work;
  int children; // number of children scheduled from inside
  int childKind; // A_CHILD / A_CHILD_FQ / A_CHILD_BULK
  int depth;
};

static void runBody(TaskSpec s);

static TaskSpec makeSpec(int api, int depth) {
  TaskSpec s;
  s.tag = tagNew(api);
  g_ctx->outstanding++;
  s.work = range(0, 4);
  s.depth = depth;
  s.children = 0;
  s.childKind = A_CHILD;
  if (depth < 2 && chance(1, 5)) {
    s.children = range(1, 3);
    s.childKind = A_CHILD + (int)pick(3);
  }
  return s;
}

struct Body {
  TaskSpec s;
  void operator()() {
    runBody(s);
  }
};

static void scheduleChildren(const TaskSpec& parent) {
  dispenso::ThreadPool& pool = *g_ctx->pool;
  if (parent.childKind == A_CHILD_BULK) {
    std::vector<TaskSpec> kids;
    for (int i = 0; i < parent.children; ++i)
      kids.push_back(makeSpec(A_CHILD_BULK, parent.depth + 1));
    pool.scheduleBulk(kids.size(), [&kids](size_t i) { return Body{kids[i]}; });
  } else {
    for (int i = 0; i < parent.children; ++i) {
      TaskSpec k = makeSpec(parent.childKind, parent.depth + 1);
      if (parent.childKind == A_CHILD_FQ) {
        int tid = sim_tid();
        int saved = g_ctx->fqTag[tid];
        g_ctx->fqTag[tid] = k.tag;
        pool.schedule(Body{k}, dispenso::ForceQueuingTag());
        g_ctx->fqTag[tid] = saved;
      } else {
        pool.schedule(Body{k});
      }
    }
  }
}

static void runBody(TaskSpec s) {
  TagInfo& t = tag(s.tag);
  if (t.starts >= 1)
    sim_fail((std::string(apiName(t.api)) + ":dup").c_str(), "task %d (%s) invoked twice", s.tag, apiName(t.api));
  if (g_ctx->dtorReturned)
    sim_fail((std::string(apiName(t.api)) + ":late").c_str(), "task %d started after ~ThreadPool returned", s.tag);
  if (g_ctx->fqTag[sim_tid()] == s.tag && g_ctx->pool && g_ctx->pool->numThreads() > 0)
    g_ctx->fqViolation = apiName(t.api);
  tagStart(s.tag);
  sim_work(s.work);
  if (s.children)
    scheduleChildren(s);
  sim_work(s.work / 2);
  tagFinish(s.tag);
  g_ctx->outstanding--;
}

struct ProducerOp {
  int kind; // A_SCHED, A_SCHED_FQ, A_BULK
  int n;
};

static void producerThread(std::vector<ProducerOp> ops) {
  dispenso::ThreadPool& pool = *g_ctx->pool;
  for (const ProducerOp& op : ops) {
    if (op.kind == A_SCHED) {
      pool.schedule(Body{makeSpec(A_SCHED, 0)});
    } else if (op.kind == A_SCHED_FQ) {
      int tid = sim_tid();
      TaskSpec sp = makeSpec(A_SCHED_FQ, 0);
      g_ctx->fqTag[tid] = sp.tag;
      pool.schedule(Body{sp}, dispenso::ForceQueuingTag());
      g_ctx->fqTag[tid] = -1;
    } else {
      std::vector<TaskSpec> specs;
      for (int i = 0; i < op.n; ++i)
        specs.push_back(makeSpec(A_BULK, 0));
      pool.scheduleBulk(specs.size(), [&specs](size_t i) { return Body{specs[i]}; });
    }
    sim_work((int)(op.n % 3));
  }
}

static void poolHang(char* buf, size_t n) {
  int notStarted = 0, running = 0;
  int firstApi = 0;
  for (int i = 0; i < tagCount(); ++i) {
    if (tag(i).starts == 0) {
      notStarted++;
      if (!firstApi)
        firstApi = tag(i).api;
    } else if (tag(i).finishes == 0) {
      running++;
    }
  }
  snprintf(buf, n, "[tags=%d not-started=%d(%s) running=%d]", tagCount(), notStarted, apiName(firstApi), running);
}

static std::vector<ProducerOp> planProducer(int maxOps, int maxBulk) {
  std::vector<ProducerOp> ops;
  int n = range(1, maxOps);
  for (int i = 0; i < n; ++i) {
    ProducerOp op;
    op.kind = A_SCHED + (int)pick(3);
    op.n = op.kind == A_BULK ? range(1, maxBulk) : 1;
    ops.push_back(op);
  }
  return ops;
}

static void checkAllOnce(const char* when) {
  for (int i = 0; i < tagCount(); ++i) {
    TagInfo& t = tag(i);
    if (t.starts != 1 || t.finishes != 1) {
      std::string cls = std::string(apiName(t.api)) + (t.starts == 0 ? ":lost" : (t.starts > 1 ? ":dup" : ":unfinished"));
      sim_fail(cls.c_str(), "%s: task %d (%s) starts=%d finishes=%d of %d tasks", when, i, apiName(t.api), t.starts,
               t.finishes, tagCount());
    }
    tagObserve(i);
  }
}

// ---------------------------------------------------------------------------------------------
// C01: every task runs exactly once, no later than the destructor's return
// ---------------------------------------------------------------------------------------------
static void wlPoolOnce() {
  PoolCtx ctx;
  g_ctx = &ctx;
  tagsReset();
  sim_set_hang_describer(poolHang);
  int nThreads = range(0, 6);
  static const int mults[] = {32, 1, 2};
  int mult = oneOf(mults);
  bool poll = chance(1, 6);
  int nProd = range(1, 3);
  bool waitQuiescent = chance(1, 2);
  sim_note("threads", nThreads);
  sim_note("mult", mult);
  sim_note("poll", poll);
  sim_note("producers", nProd);
  ctx.pool = new dispenso::ThreadPool((size_t)nThreads, (size_t)mult);
  if (poll)
    ctx.pool->setSignalingWake(false, std::chrono::microseconds(200));
  std::vector<std::vector<ProducerOp>> plans;
  for (int p = 0; p < nProd; ++p)
    plans.push_back(planProducer(6, 40));
  // an admin thread may resize the pool (also to zero, and leave it there) while producers submit:
  // whatever the pool's size history, every task must have run once when the destructor returns
  std::vector<int> sizes;
  if (chance(1, 3)) {
    int n = range(1, 3);
    for (int i = 0; i < n; ++i)
      sizes.push_back(chance(1, 2) ? 0 : range(0, 4));
  }
  sim_note("resizes", (int64_t)sizes.size());
  sim_note("lastsize", sizes.empty() ? -1 : sizes.back());
  std::vector<std::thread> producers;
  for (int p = 1; p < nProd; ++p)
    producers.emplace_back(producerThread, plans[(size_t)p]);
  if (!sizes.empty())
    producers.emplace_back([&ctx, sizes]() {
      for (int sz : sizes) {
        sim_work(1 + (int)(sim_step() % 7));
        ctx.pool->resize((ssize_t)sz);
      }
    });
  producerThread(plans[0]);
  for (auto& t : producers)
    t.join();
  if (waitQuiescent && (sizes.empty() || sizes.back() > 0)) {
    // poll without helping
    for (int i = 0; i < 200000 && ctx.outstanding > 0; ++i)
      sim_sleep_ns(20000);
  }
  delete ctx.pool;
  ctx.dtorReturned = true;
  ctx.pool = nullptr;
  checkAllOnce("after ~ThreadPool");
  sim_note("tasks", tagCount() / 8);
}

// ---------------------------------------------------------------------------------------------
// C47: ForceQueuingTag never runs the functor on the caller (pool >= 1 thread, overloaded)
// ---------------------------------------------------------------------------------------------
static void wlPoolFQ() {
  PoolCtx ctx;
  g_ctx = &ctx;
  tagsReset();
  sim_set_hang_describer(poolHang);
  int nThreads = range(1, 4);
  int mult = range(1, 2);
  sim_note("threads", nThreads);
  sim_note("mult", mult);
  ctx.pool = new dispenso::ThreadPool((size_t)nThreads, (size_t)mult);
  int nProd = range(1, 3);
  std::vector<std::vector<ProducerOp>> plans;
  for (int p = 0; p < nProd; ++p) {
    std::vector<ProducerOp> ops;
    int n = range(4, 30);
    for (int i = 0; i < n; ++i) {
      ProducerOp op;
      op.kind = chance(2, 3) ? A_SCHED_FQ : (chance(1, 2) ? A_SCHED : A_BULK);
      op.n = op.kind == A_BULK ? range(1, 12) : 1;
      ops.push_back(op);
    }
    plans.push_back(ops);
  }
  std::vector<std::thread> producers;
  for (int p = 1; p < nProd; ++p)
    producers.emplace_back(producerThread, plans[(size_t)p]);
  producerThread(plans[0]);
  for (auto& t : producers)
    t.join();
  delete ctx.pool;
  ctx.dtorReturned = true;
  if (ctx.fqViolation)
    sim_fail((std::string(ctx.fqViolation) + ":ran-on-caller").c_str(),
             "a force-queued functor ran inside the schedule() call that submitted it");
  checkAllOnce("after ~ThreadPool");
}

} // namespace

HX_WORKLOAD("C01", "pool-once", wlPoolOnce, SF_ALL | SF_TSO, 4000000, 4000000, 1);
HX_WORKLOAD("C47", "pool-fq", wlPoolFQ, SF_ALL, 4000000, 4000000, 1);
