// Workload family `timed`: TimedTask / TimedTaskScheduler on the simulated clock (C26).
#include <dispenso/schedulable.h>
#include <dispenso/thread_pool.h>
#include <dispenso/timed_task.h>

#include <algorithm>
#include <memory>
#include <thread>
#include <vector>

#include "hx.h"

using namespace hx;

namespace {

enum Sched { S_IMM = 0, S_POOL, S_NEWTHREAD, S_N };
static const char* schedName(int s) {
  static const char* n[] = {"ImmediateInvoker", "ThreadPool", "NewThreadInvoker"};
  return n[s];
}

struct TaskRec {
  int sched;
  double firstRunAbs;        // scheduled absolute time of the first run (dispenso::getTime() scale)
  size_t timesToRun;
  int falseAfter;            // functor returns false on this call number (0 = never)
  int calls = 0;
  int inBody = 0;
  bool returnedFalse = false;
  int falseTid = -1;
  uint64_t cancelReturnStep = 0;
  bool dtorReturned = false;
  bool detached = false;
  double firstCallAt = -1;
  char in = 0;      // C10: what the functor captured; written before schedule(), read by every invocation
  char out[8] = {}; // C10: what invocation k produced; read by the owner once the task's destructor returned
};
static void observeOutputs(TaskRec& r) {
  for (int k = 0; k < 8 && k < r.calls; ++k)
    raceR(&r.out[k], "timed-task-output");
}

static std::vector<TaskRec>* g_recs;

static bool body(int idx) {
  TaskRec& r = (*g_recs)[(size_t)idx];
  char cls[160];
  double now = 1e-9 * (double)sim_now_ns();
  if (r.cancelReturnStep && sim_last_load_step() > r.cancelReturnStep) {
    snprintf(cls, sizeof cls, "%s:started-after-cancel", schedName(r.sched));
    sim_fail(cls, "invocation %d started although the thread's last atomic load (step %llu) is after cancel() returned (%llu)",
             r.calls + 1, (unsigned long long)sim_last_load_step(), (unsigned long long)r.cancelReturnStep);
  }
  if (r.dtorReturned && !r.detached) {
    snprintf(cls, sizeof cls, "%s:started-after-destructor", schedName(r.sched));
    sim_fail(cls, "invocation started after the (non-detached) TimedTask destructor returned");
  }
  r.inBody++;
  r.calls++;
  raceR(&r.in, "timed-task-capture");
  raceW(&r.out[(r.calls - 1) & 7], "timed-task-output");
  if (r.firstCallAt < 0)
    r.firstCallAt = now;
  sim_event(7, idx, r.calls);
  if (r.returnedFalse) {
    // check-then-act (DESIGN.md section 6): an invocation that passed the library's cancelled-check before the
    // flag was set may still run.  The library sets the flag with its 2nd atomic operation after the user
    // function returned false; an invocation whose own last atomic load came later has no excuse.
    uint64_t setAt = sim_marked_step(r.falseTid);
    if (setAt != 0 && sim_last_load_step() > setAt) {
      snprintf(cls, sizeof cls, "%s:invoked-after-false", schedName(r.sched));
      sim_fail(cls, "function invoked again (call %d) although the cancelled flag was set at step %llu and this thread's last "
               "atomic load is at step %llu", r.calls, (unsigned long long)setAt, (unsigned long long)sim_last_load_step());
    }
  }
  if ((size_t)r.calls > r.timesToRun) {
    snprintf(cls, sizeof cls, "%s:more-than-timesToRun", schedName(r.sched));
    sim_fail(cls, "call %d exceeds timesToRun=%zu", r.calls, r.timesToRun);
  }
  if (now + 1e-12 < r.firstRunAbs) {
    double early = r.firstRunAbs - now;
    snprintf(cls, sizeof cls, "%s:before-scheduled-time:%s", schedName(r.sched), early <= 10.0e-6 ? "within-10us-buffer" : "beyond-buffer");
    if (early <= 10.0e-6)
      sim_soft_fail(cls, "first invocation at t=%.9f, scheduled for t=%.9f (%.3f us early)", now, r.firstRunAbs, early * 1e6);
    else
      sim_fail(cls, "first invocation at t=%.9f, scheduled for t=%.9f (%.3f us early)", now, r.firstRunAbs, early * 1e6);
  }
  sim_work(1 + (int)(sim_step() % 5));
  bool ret = true;
  if (r.falseAfter && r.calls >= r.falseAfter) {
    ret = false;
    if (!r.returnedFalse) {
      r.falseTid = sim_tid();
      sim_mark_after_atomics(2); // timesToRun.store(0), flags.fetch_or(cancelled)
    }
    r.returnedFalse = true;
  }
  r.inBody--;
  return ret;
}

static void wlTimed() {
  // heap-allocated and never freed: detached invocations may outlive this function
  std::vector<TaskRec>& recs = immortal<std::vector<TaskRec>>();
  g_recs = &recs;
  int nThreads = range(1, 3);
  int nTasks = range(1, 3);
  sim_note("pool", nThreads);
  sim_note("tasks", nTasks);
  recs.resize((size_t)nTasks);
  dispenso::ThreadPool pool((size_t)nThreads);
  dispenso::ImmediateInvoker imm;
  dispenso::NewThreadInvoker nti;
  {
    dispenso::TimedTaskScheduler scheduler;
    std::vector<std::unique_ptr<dispenso::TimedTask>> tasks;
    struct Action {
      int kind; // 0 nothing (destroy at end), 1 cancel, 2 destroy, 3 detach
      uint64_t atNs;
    };
    std::vector<Action> actions;
    static const double delays[] = {0.0, 5e-6, 30e-6, 200e-6, 2e-3, 40e-3};
    static const double periods[] = {0.0, 20e-6, 100e-6, 1e-3};
    for (int i = 0; i < nTasks; ++i) {
      TaskRec& r = recs[(size_t)i];
      r.sched = (int)pick(2);
      double delay = oneOf(delays);
      double period = oneOf(periods);
      r.timesToRun = period == 0.0 ? 1 : (size_t)range(1, 5);
      bool forever = period > 0 && chance(1, 4);
      r.falseAfter = chance(1, 3) ? range(1, 3) : 0;
      bool steady = chance(1, 2);
      if (forever) {
        r.timesToRun = (size_t)-1;
        if (!r.falseAfter && chance(1, 2))
          r.falseAfter = range(2, 6);
      }
      sim_note("sched", r.sched);
      sim_note("period_us", (int64_t)(period * 1e6));
      sim_note("delay_us", (int64_t)(delay * 1e6));
      r.firstRunAbs = dispenso::getTime() + delay;
      raceW(&r.in, "timed-task-capture");
      auto fn = [i]() { return body(i); };
      auto type = steady ? dispenso::TimedTaskType::kSteady : dispenso::TimedTaskType::kNormal;
      // (NewThreadInvoker cannot be used with TimedTask: its schedule() does not accept the
      // mutable wrapper TimedTaskImpl hands it — a compile-time limitation, nothing to simulate.)
      dispenso::TimedTask t = r.sched == S_IMM ? scheduler.schedule(imm, fn, r.firstRunAbs, period, r.timesToRun, type)
                                               : scheduler.schedule(pool, fn, r.firstRunAbs, period, r.timesToRun, type);
      tasks.emplace_back(new dispenso::TimedTask(std::move(t)));
      Action a;
      a.kind = (int)pick(4);
      static const uint64_t whens[] = {0, 3000, 25000, 150000, 1500000, 30000000};
      a.atNs = oneOf(whens) + (uint64_t)pick(2000);
      actions.push_back(a);
      sim_note("action", a.kind);
    }
    // perform the actions in time order from this thread
    std::vector<int> order;
    for (int i = 0; i < nTasks; ++i)
      order.push_back(i);
    std::sort(order.begin(), order.end(), [&](int a, int b) { return actions[(size_t)a].atNs < actions[(size_t)b].atNs; });
    uint64_t t0 = sim_now_ns();
    for (int i : order) {
      Action& a = actions[(size_t)i];
      uint64_t target = t0 + a.atNs;
      if (sim_now_ns() < target)
        sim_sleep_ns(target - sim_now_ns());
      TaskRec& r = recs[(size_t)i];
      if (a.kind == 1) {
        tasks[(size_t)i]->cancel();
        r.cancelReturnStep = sim_step();
      } else if (a.kind == 2) {
        tasks[(size_t)i].reset();
        r.dtorReturned = true;
        if (r.inBody != 0) {
          char cls[128];
          snprintf(cls, sizeof cls, "%s:destructor-returned-during-invocation", schedName(r.sched));
          sim_fail(cls, "~TimedTask returned while %d invocation(s) are in progress", r.inBody);
        }
        observeOutputs(r);
      } else if (a.kind == 3) {
        r.detached = true;
        tasks[(size_t)i]->detach();
        tasks[(size_t)i].reset();
      }
    }
    // let periodic tasks run for a while, then tear everything down
    sim_sleep_ns(1000ull * (uint64_t)range(0, 3000));
    for (int i = 0; i < nTasks; ++i) {
      TaskRec& r = recs[(size_t)i];
      if (tasks[(size_t)i]) {
        tasks[(size_t)i].reset();
        r.dtorReturned = true;
        if (r.inBody != 0) {
          char cls[128];
          snprintf(cls, sizeof cls, "%s:destructor-returned-during-invocation", schedName(r.sched));
          sim_fail(cls, "~TimedTask returned while %d invocation(s) are in progress", r.inBody);
        }
        observeOutputs(r);
      }
    }
    // detached tasks may still be running; cancel is impossible now, so bound them by run count
    for (int i = 0; i < nTasks; ++i) {
      TaskRec& r = recs[(size_t)i];
      if (r.detached && r.timesToRun == (size_t)-1 && !r.falseAfter)
        r.falseAfter = r.calls + 1; // make the next call return false
    }
    sim_sleep_ns(3000000);
  } // ~TimedTaskScheduler joins its thread
}

} // namespace

HX_WORKLOAD("C26", "timed", wlTimed, SF_ALL, 6000000, 6000000, 1);
