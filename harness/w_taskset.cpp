// Workload family `taskset`: TaskSet / ConcurrentTaskSet.
//   C02 wait is a completion barrier, C04 cancellation, C05 exceptions, C16 parallel_invoke,
//   C47 (task-set force-queue overloads).
#include <dispenso/future.h>
#include <dispenso/parallel_invoke.h>
#include <dispenso/task_set.h>

#include <memory>
#include <thread>
#include <vector>

#include "hx.h"

using namespace hx;

namespace {

enum Api {
  A_SCHED = 1,
  A_SCHED_FQ,
  A_BULK,
  A_BULK_FQ,
  A_SELF,      // task schedules into its own (concurrent) set
  A_NESTED,    // task in a nested set created inside a task
  A_ASYNC,     // dispenso::async(set, ...)
  A_THEN,      // future.then(f, set)
  A_NAPI
};
static const char* apiName(int a) {
  static const char* n[] = {"?", "schedule", "schedule-fq", "bulk", "bulk-fq", "self-schedule", "nested", "async", "then"};
  return a > 0 && a < A_NAPI ? n[a] : "?";
}
enum SetKind { K_TS = 0, K_CTS_HEAVY = 1, K_CTS_LIGHT = 2 };
static const char* kindName(int k) {
  static const char* n[] = {"TaskSet", "CTS-heavy", "CTS-light"};
  return n[k % 3];
}

struct Tagged {
  int id;
};

struct PerThread {
  int submitLo = -1, submitHi = -1; // tags being submitted by the schedule call in progress
  uint64_t submitStep = 0;          // step at which that call was invoked
  uint64_t lastInlineFinish = 0;    // finish step of the previous body run inline by that call
  int fqLo = -1, fqHi = -1;         // same, for force-queue calls (C47)
};

struct Ctx {
  dispenso::ThreadPool* pool = nullptr;
  dispenso::TaskSet* ts = nullptr;
  dispenso::ConcurrentTaskSet* cts = nullptr;
  int kind = 0;
  // cancellation
  bool willCancel = false;
  bool cancelCalled = false;
  uint64_t cancelReturnStep = 0; // 0 = cancel() has not returned yet
  const char* cancelSource = "none";
  // exceptions
  int throwsPending = 0;      // throws captured by dispenso (not propagated to a schedule caller) since last wait
  std::vector<int> thrown;    // per tag: body threw
  std::vector<int> delivered; // per tag: deliveries to wait/tryWait/schedule callers
  bool anyThrow = false;
  PerThread pt[256];
  const char* fqViolation = nullptr;
  int outstandingHarness = 0;
};
static Ctx* g;

struct Spec {
  int tag;
  int work;
  int kids;      // self-scheduled children (CTS only)
  int nested;    // size of a nested task set created inside (0 = none)
  bool throws;
  bool cancels;  // body calls cancel() on the set
  int depth;
};

static void runBody(const Spec& s);
struct Body {
  Spec s;
  void operator()() {
    runBody(s);
  }
};

static Spec makeSpec(int api, int depth, int throwPermille, bool allowKids) {
  Spec s;
  s.tag = tagNew(api);
  if ((int)g->thrown.size() <= s.tag) {
    g->thrown.resize((size_t)s.tag + 1, 0);
    g->delivered.resize((size_t)s.tag + 1, 0);
  }
  g->outstandingHarness++;
  s.work = range(0, 3);
  s.depth = depth;
  s.kids = 0;
  s.nested = 0;
  s.throws = throwPermille > 0 && chance((uint32_t)throwPermille, 1000);
  s.cancels = false;
  if (depth < 2 && allowKids && chance(1, 6))
    s.kids = range(1, 3);
  if (depth < 2 && chance(1, 10))
    s.nested = range(1, 4);
  return s;
}

// ---- cancellation oracle (DESIGN.md §6 check-then-act rule) ----------------------------------
static void checkCancelAtStart(const Spec& s) {
  if (!g->cancelReturnStep)
    return;
  TagInfo& t = tag(s.tag);
  if (t.api == A_NESTED)
    return; // belongs to another set
  // Futures and continuations bound to a set count towards its wait() (C02) but are not "task
  // bodies scheduled to it" in C04's sense: skipping them would leave their futures never ready,
  // and the library deliberately runs them. The cancellation oracle covers schedule/scheduleBulk.
  if (t.api == A_ASYNC || t.api == A_THEN)
    return;
  PerThread& p = g->pt[sim_tid()];
  uint64_t C = g->cancelReturnStep;
  bool inlineRun = s.tag >= p.submitLo && s.tag <= p.submitHi;
  if (inlineRun) {
    bool bulk = t.api == A_BULK || t.api == A_BULK_FQ;
    if (p.submitStep > C) {
      std::string cls = std::string(kindName(g->kind)) + ":" + apiName(t.api) + ":inline-after-cancel:" + g->cancelSource;
      sim_fail(cls.c_str(), "body %d ran inline in a %s() call invoked at step %llu, after cancel() returned at %llu",
               s.tag, apiName(t.api), (unsigned long long)p.submitStep, (unsigned long long)C);
    }
    if (bulk && p.lastInlineFinish > C) {
      std::string cls = std::string(kindName(g->kind)) + ":" + apiName(t.api) + ":bulk-inline-continues:" + g->cancelSource;
      sim_fail(cls.c_str(), "bulk call kept running bodies inline: previous body finished at %llu > cancel return %llu",
               (unsigned long long)p.lastInlineFinish, (unsigned long long)C);
    }
  } else {
    uint64_t L = sim_last_load_step();
    if (L > C) {
      std::string cls = std::string(kindName(g->kind)) + ":" + apiName(t.api) + ":queued-after-cancel:" + g->cancelSource;
      sim_fail(cls.c_str(),
               "queued body %d started although the executing thread's last atomic load (step %llu) is after cancel() "
               "returned (%llu)",
               s.tag, (unsigned long long)L, (unsigned long long)C);
    }
  }
}

static void doCancel(const char* source) {
  g->cancelCalled = true;
  g->cancelSource = source;
  if (g->ts)
    g->ts->cancel();
  else
    g->cts->cancel();
  if (!g->cancelReturnStep)
    g->cancelReturnStep = sim_step();
}

static void runBody(const Spec& s) {
  TagInfo& t = tag(s.tag);
  if (t.starts >= 1) {
    std::string cls = std::string(kindName(g->kind)) + ":" + apiName(t.api) + ":dup";
    sim_fail(cls.c_str(), "task %d ran twice", s.tag);
  }
  checkCancelAtStart(s);
  PerThread& p = g->pt[sim_tid()];
  if (s.tag >= p.fqLo && s.tag <= p.fqHi && g->pool->numThreads() > 0)
    g->fqViolation = apiName(t.api);
  tagStart(s.tag);
  sim_work(s.work);
  if (s.kids && g->cts) {
    for (int i = 0; i < s.kids; ++i) {
      Spec k = makeSpec(A_SELF, s.depth + 1, 0, true);
      PerThread saved = p;
      p.submitLo = p.submitHi = k.tag;
      p.submitStep = sim_step();
      p.lastInlineFinish = 0;
      try {
        if (chance(1, 3)) {
          // a continuation registered with the set from inside one of its tasks
          tag(k.tag).api = A_THEN;
          auto ready = dispenso::make_ready_future(1);
          auto cont = ready.then(
              [k](dispenso::Future<int>&&) {
                runBody(k);
                return 0;
              },
              *g->cts);
          (void)cont;
        } else {
          g->cts->schedule(Body{k});
        }
      } catch (Tagged& e) {
        g->delivered[(size_t)e.id]++;
      }
      p = saved;
    }
  }
  if (s.nested) {
    // a nested set on the same pool, fully waited inside the task (its own barrier is checked too)
    dispenso::TaskSet inner(*g->pool);
    std::vector<int> tags;
    for (int i = 0; i < s.nested; ++i) {
      Spec k = makeSpec(A_NESTED, 2, 0, false);
      k.nested = 0;
      tags.push_back(k.tag);
      inner.schedule(Body{k});
    }
    inner.wait();
    for (int id : tags)
      if (tag(id).finishes != 1) {
        std::string cls = std::string("nested-TaskSet:") + "nested:unfinished-at-wait";
        sim_fail(cls.c_str(), "nested wait() returned with task %d unfinished", id);
      } else {
        tagObserve(id);
      }
  }
  if (s.cancels)
    doCancel("in-task");
  if (s.throws) {
    g->thrown[(size_t)s.tag] = 1;
    g->anyThrow = true;
    tagFinish(s.tag);
    g->outstandingHarness--;
    // captured-by-dispenso unless we are being run inline by a plain schedule() (then it propagates)
    g->throwsPending++;
    if (s.tag >= p.submitLo && s.tag <= p.submitHi)
      p.lastInlineFinish = sim_step();
    throw Tagged{s.tag};
  }
  tagFinish(s.tag);
  g->outstandingHarness--;
  if (s.tag >= p.submitLo && s.tag <= p.submitHi)
    p.lastInlineFinish = sim_step();
}

struct Op {
  int kind; // A_SCHED, A_SCHED_FQ, A_BULK, A_BULK_FQ, A_ASYNC
  int n;
};

struct SubmitScope {
  PerThread& p;
  PerThread saved;
  SubmitScope(int lo, int hi, bool fq) : p(g->pt[sim_tid()]), saved(p) {
    p.submitLo = lo;
    p.submitHi = hi;
    p.submitStep = sim_step();
    p.lastInlineFinish = 0;
    if (fq) {
      p.fqLo = lo;
      p.fqHi = hi;
    }
  }
  ~SubmitScope() {
    p = saved;
  }
};

template <typename Set>
static void submit(Set& set, const Op& op, int throwPermille, bool allowKids, std::vector<dispenso::Future<int>>* futs) {
  try {
    if (op.kind == A_SCHED || op.kind == A_SCHED_FQ) {
      Spec s = makeSpec(op.kind, 0, throwPermille, allowKids);
      SubmitScope sc(s.tag, s.tag, op.kind == A_SCHED_FQ);
      if (op.kind == A_SCHED)
        set.schedule(Body{s});
      else
        set.schedule(Body{s}, dispenso::ForceQueuingTag());
    } else if (op.kind == A_BULK || op.kind == A_BULK_FQ) {
      std::vector<Spec> specs;
      for (int i = 0; i < op.n; ++i)
        specs.push_back(makeSpec(op.kind, 0, throwPermille, allowKids));
      SubmitScope sc(specs.front().tag, specs.back().tag, op.kind == A_BULK_FQ);
      if (op.kind == A_BULK)
        set.scheduleBulk(specs.size(), [&specs](size_t i) { return Body{specs[i]}; });
      else
        set.scheduleBulk(specs.size(), [&specs](size_t i) { return Body{specs[i]}; }, dispenso::ForceQueuingTag());
    } else if (op.kind == A_THEN && futs) {
      // a continuation bound to the set: on a ready antecedent, or on one that completes later
      Spec s = makeSpec(A_THEN, 0, 0, false);
      s.nested = 0;
      SubmitScope sc(s.tag, s.tag, false);
      dispenso::Future<int> ante = chance(1, 2) ? dispenso::make_ready_future(1)
                                               : dispenso::async(*g->pool, std::launch::async, []() {
                                                   sim_work(3);
                                                   return 1;
                                                 });
      futs->push_back(ante.then(
          [s](dispenso::Future<int>&&) {
            runBody(s);
            return s.tag;
          },
          set));
    } else if (op.kind == A_ASYNC && futs) {
      Spec s = makeSpec(A_ASYNC, 0, 0, false);
      s.nested = 0;
      SubmitScope sc(s.tag, s.tag, false);
      futs->push_back(dispenso::async(set, [s]() {
        runBody(s);
        return s.tag;
      }));
    }
  } catch (Tagged& e) {
    // an inline-run functor may propagate directly to the scheduling caller (documented)
    g->delivered[(size_t)e.id]++;
    g->throwsPending--;
  }
}

static std::vector<Op> planOps(int maxOps, int maxBulk, bool allowAsync) {
  std::vector<Op> ops;
  int n = range(1, maxOps);
  for (int i = 0; i < n; ++i) {
    Op op;
    uint32_t r = pick(allowAsync ? 6 : 4);
    op.kind = r == 4 ? A_ASYNC : (r == 5 ? A_THEN : A_SCHED + (int)r);
    op.n = (op.kind == A_BULK || op.kind == A_BULK_FQ) ? range(1, maxBulk) : 1;
    ops.push_back(op);
  }
  return ops;
}

static void tsHang(char* buf, size_t n) {
  int notStarted = 0, running = 0, firstApi = 0;
  for (int i = 0; i < tagCount(); ++i) {
    if (tag(i).starts == 0) {
      notStarted++;
      if (!firstApi)
        firstApi = tag(i).api;
    } else if (tag(i).finishes == 0)
      running++;
  }
  snprintf(buf, n, "[%s tags=%d not-started=%d(%s) running=%d cancel=%s]", kindName(g->kind), tagCount(), notStarted,
           apiName(firstApi), running, g->cancelSource);
}

// after a wait()/tryWait()==true/destructor: every tag of the set scheduled so far must be finished
static void checkBarrier(const char* how, int upto, bool canceledOrThrew) {
  for (int i = 0; i < upto; ++i) {
    TagInfo& t = tag(i);
    if (t.starts > 1) {
      std::string cls = std::string(kindName(g->kind)) + ":" + apiName(t.api) + ":dup";
      sim_fail(cls.c_str(), "task %d ran %d times", i, t.starts);
    }
    if (t.starts != t.finishes) {
      std::string cls = std::string(kindName(g->kind)) + ":" + apiName(t.api) + ":running-at-" + how;
      sim_fail(cls.c_str(), "%s returned while task %d is still running", how, i);
    }
    if (t.starts == 0 && !canceledOrThrew) {
      std::string cls = std::string(kindName(g->kind)) + ":" + apiName(t.api) + ":not-run-at-" + how;
      sim_fail(cls.c_str(), "%s returned but task %d (%s) never ran (no cancellation)", how, i, apiName(t.api));
    }
    tagObserve(i);
  }
}

// one wait-like call; returns true if the set is known complete afterwards
template <typename Set>
static bool doWait(Set& set, int mode, bool* canceledOut) {
  try {
    if (mode == 0) {
      bool c = set.wait();
      *canceledOut = c;
      if (g->throwsPending > 0) {
        std::string cls = std::string(kindName(g->kind)) + ":exception-dropped-at-wait";
        sim_fail(cls.c_str(), "wait() returned normally with %d captured exception(s) pending", g->throwsPending);
      }
      checkBarrier("wait", tagCount(), c || g->cancelCalled || g->anyThrow);
      if (g->cancelReturnStep && !c) {
        std::string cls = std::string(kindName(g->kind)) + ":wait-does-not-report-cancel";
        sim_fail(cls.c_str(), "cancel() returned before wait() was called but wait() returned false");
      }
      return true;
    } else {
      for (int i = 0; i < 100000; ++i) {
        bool done = set.tryWait((size_t)range(1, 3));
        if (done) {
          if (g->throwsPending > 0) {
            std::string cls = std::string(kindName(g->kind)) + ":exception-dropped-at-tryWait";
            sim_fail(cls.c_str(), "tryWait() returned true with %d captured exception(s) pending", g->throwsPending);
          }
          // tryWait()==true means complete and not cancelled
          checkBarrier("tryWait", tagCount(), g->cancelCalled || g->anyThrow);
          *canceledOut = false;
          return true;
        }
        if (set.canceled()) {
          // cancelled sets report false from tryWait forever; fall back to wait()
          bool c = set.wait();
          *canceledOut = c;
          checkBarrier("wait", tagCount(), true);
          return true;
        }
        sim_sleep_ns(2000);
      }
      sim_fail((std::string(kindName(g->kind)) + ":tryWait-never-true").c_str(), "tryWait loop did not complete");
    }
  } catch (Tagged& e) {
    if (e.id < 0 || e.id >= (int)g->thrown.size() || !g->thrown[(size_t)e.id]) {
      sim_fail((std::string(kindName(g->kind)) + ":exception-not-thrown").c_str(), "wait rethrew tag %d that no body threw", e.id);
    }
    if (++g->delivered[(size_t)e.id] > 1) {
      sim_fail((std::string(kindName(g->kind)) + ":exception-delivered-twice").c_str(), "tag %d delivered %d times", e.id,
               g->delivered[(size_t)e.id]);
    }
    g->throwsPending = 0;
    *canceledOut = true;
    // an exception is rethrown only by a wait that observed completion
    checkBarrier(mode == 0 ? "wait" : "tryWait", tagCount(), true);
    return true;
  }
}

struct Params {
  int throwPermille;
  int cancelMode; // 0 none, 1 external thread, 2 in task, 3 parent cascade
  bool overload;
  bool allowAsync;
};

static void taskSetProgram(const Params& P) {
  Ctx ctx;
  g = &ctx;
  tagsReset();
  sim_set_hang_describer(tsHang);
  int nThreads = range(0, 4);
  static const int mults[] = {32, 1, 2};
  int mult = P.overload ? range(1, 2) : oneOf(mults);
  static const int steal[] = {4, 1, 2};
  int stealMult = P.overload ? 1 : oneOf(steal);
  ctx.kind = (int)pick(3);
  int waitMode = (int)pick(3); // 0 wait, 1 tryWait loop, 2 destructor
  // A task set destroyed with a captured exception pending calls wait() from a noexcept
  // destructor (std::terminate).  Retrieving exceptions is the job of wait()/tryWait() (that is
  // what C05 talks about), so throwing programs always wait explicitly.
  if (P.throwPermille > 0 && waitMode == 2)
    waitMode = 0;
  sim_note("threads", nThreads);
  sim_note("mult", mult);
  sim_note("steal", stealMult);
  sim_note("kind", ctx.kind);
  sim_note("waitmode", waitMode);
  sim_note("cancel", P.cancelMode);
  dispenso::ThreadPool pool((size_t)nThreads, (size_t)mult);
  ctx.pool = &pool;
  ctx.willCancel = P.cancelMode != 0;
  std::vector<dispenso::Future<int>> futs;

  // parent set for cascade cancellation: our set is created inside a task of the parent
  std::unique_ptr<dispenso::ConcurrentTaskSet> parent;
  auto program = [&]() {
    auto pc = P.cancelMode == 3 ? dispenso::ParentCascadeCancel::kOn : dispenso::ParentCascadeCancel::kOff;
    std::unique_ptr<dispenso::TaskSet> ts;
    std::unique_ptr<dispenso::ConcurrentTaskSet> cts;
    std::thread canceller;
    bool cancelStarted = false;
    if (P.cancelMode == 3 && chance(1, 2)) {
      // the parent may be cancelled before, while or after the child set is being constructed (the child
      // has to register with the parent and pick up a cancellation that is already there)
      cancelStarted = true;
      int delay = range(0, 8);
      static int ctorSoon;
      ctorSoon = 0;
      canceller = std::thread([delay, &parent]() {
        for (int i = 0; i < 100000 && !ctorSoon; ++i)
          sim_sleep_ns(200);
        sim_work(delay);
        g->cancelCalled = true;
        g->cancelSource = "parent-cascade";
        parent->cancel();
        if (!g->cancelReturnStep)
          g->cancelReturnStep = sim_step();
      });
      sim_work(range(0, 30));
      ctorSoon = 1; // the child set is constructed next: the canceller aims at it
    }
    if (ctx.kind == K_TS) {
      ts.reset(new dispenso::TaskSet(pool, pc, stealMult));
      ctx.ts = ts.get();
    } else {
      cts.reset(new dispenso::ConcurrentTaskSet(pool, pc, stealMult,
                                                ctx.kind == K_CTS_HEAVY ? dispenso::TaskCost::kHeavy
                                                                        : dispenso::TaskCost::kLightweight));
      ctx.cts = cts.get();
    }
    int rounds = range(1, 2);
    for (int round = 0; round < rounds; ++round) {
      std::vector<Op> ops = planOps(6, 14, P.allowAsync);
      int extraProducers = ctx.kind == K_TS ? 0 : range(0, 2);
      std::vector<std::vector<Op>> extra;
      for (int e = 0; e < extraProducers; ++e)
        extra.push_back(planOps(4, 8, false));
      if (P.cancelMode == 1 && !cancelStarted && round == rounds - 1) {
        cancelStarted = true;
        int delay = range(0, 60);
        canceller = std::thread([delay]() {
          sim_work(delay);
          doCancel("external");
        });
      }
      if (P.cancelMode == 3 && !cancelStarted && round == rounds - 1) {
        cancelStarted = true;
        int delay = range(0, 60);
        canceller = std::thread([delay, &parent]() {
          sim_work(delay);
          g->cancelCalled = true;
          g->cancelSource = "parent-cascade";
          parent->cancel();
          if (!g->cancelReturnStep)
            g->cancelReturnStep = sim_step();
        });
      }
      std::vector<std::thread> producers;
      for (int e = 0; e < extraProducers; ++e) {
        producers.emplace_back([&, e]() {
          for (const Op& op : extra[(size_t)e])
            submit(*ctx.cts, op, P.throwPermille, true, nullptr);
        });
      }
      size_t cancelAt = P.cancelMode == 2 ? pick((uint32_t)ops.size()) : (size_t)-1;
      for (size_t i = 0; i < ops.size(); ++i) {
        if (i == cancelAt && !ctx.cancelCalled) {
          // a task that cancels its own set
          Spec s = makeSpec(A_SCHED, 0, 0, false);
          s.cancels = true;
          s.nested = 0;
          // fail-fast style: cancel the set, then report the reason by throwing
          s.throws = P.throwPermille > 0 && chance(1, 2);
          SubmitScope sc(s.tag, s.tag, false);
          try {
            if (ts)
              ts->schedule(Body{s});
            else
              cts->schedule(Body{s});
          } catch (Tagged& e) {
            g->delivered[(size_t)e.id]++;
            g->throwsPending--;
          }
        }
        if (ts)
          submit(*ts, ops[i], P.throwPermille, false, &futs);
        else
          submit(*cts, ops[i], P.throwPermille, true, &futs);
      }
      for (auto& t : producers)
        t.join();
      bool lastRound = round == rounds - 1;
      if (lastRound && canceller.joinable() && chance(1, 2)) {
        canceller.join();
      }
      bool canceled = false;
      if (!(lastRound && waitMode == 2)) {
        if (ts)
          doWait(*ts, waitMode == 1 ? 1 : 0, &canceled);
        else
          doWait(*cts, waitMode == 1 ? 1 : 0, &canceled);
        for (auto& f : futs)
          if (!f.is_ready())
            sim_fail((std::string(kindName(ctx.kind)) + ":async:future-not-ready-at-wait").c_str(),
                     "wait() returned but a future bound to the set is not ready");
      }
    }
    if (canceller.joinable())
      canceller.join();
    // destructor path
    try {
      ts.reset();
      cts.reset();
    } catch (Tagged& e) {
      g->delivered[(size_t)e.id]++;
    }
    ctx.ts = nullptr;
    ctx.cts = nullptr;
    checkBarrier("destructor", tagCount(), ctx.cancelCalled || ctx.anyThrow);
  };

  if (P.cancelMode == 3) {
    parent.reset(new dispenso::ConcurrentTaskSet(pool));
    // run the program as a task of the parent so that parentTaskSet() is the parent
    SimLatch done(1);
    parent->schedule(
        [&]() {
          program();
          done.countDown();
        },
        dispenso::ForceQueuingTag());
    if (nThreads == 0) {
      // force-queue on a zero-thread pool runs inline: already done
    }
    parent->wait();
    done.wait();
    parent.reset();
  } else {
    program();
  }
  if (ctx.fqViolation)
    sim_fail((std::string(kindName(ctx.kind)) + ":" + ctx.fqViolation + ":ran-on-caller").c_str(),
             "a force-queued functor ran inside the call that submitted it");
  futs.clear();
  sim_note("tasks", tagCount() / 8);
}

static void wlBarrier() {
  Params p{0, 0, chance(1, 3), true};
  taskSetProgram(p);
}
static void wlCancel() {
  Params p{0, 1 + (int)pick(3), chance(1, 2), false};
  taskSetProgram(p);
}
static void wlThrow() {
  static const int rates[] = {150, 30, 500};
  // a third of the runs also cancel the set (externally, from a task, or through a parent): a body
  // that was already running when the set was cancelled and then throws must still be reported
  int cancelMode = chance(1, 3) ? 1 + (int)pick(3) : 0;
  Params p{oneOf(rates), cancelMode, chance(1, 3), false};
  taskSetProgram(p);
}
static void wlFQ() {
  Params p{0, 0, true, false};
  taskSetProgram(p);
}

// ---------------------------------------------------------------------------------------------
// C16 parallel_invoke
// ---------------------------------------------------------------------------------------------
struct InvokeCtx {
  dispenso::ConcurrentTaskSet* cts;
  int maxDepth;
};
static InvokeCtx* gi;

static void leaf(int tagId) {
  TagInfo& t = tag(tagId);
  if (t.starts >= 1)
    sim_fail("parallel_invoke:dup", "functor %d ran twice", tagId);
  tagStart(tagId);
  sim_work(1);
  tagFinish(tagId);
}

static void recurse(int depth, int arity);

static void invokeN(int depth, int arity) {
  // tags for this call's functors; the last one must run on the caller before return
  int tags[6];
  for (int i = 0; i < arity; ++i)
    tags[i] = tagNew(arity, depth);
  int caller = sim_tid();
  auto fn = [depth](int tagId) {
    return [tagId, depth]() {
      leaf(tagId);
      if (depth < gi->maxDepth && (tagId % 3) != 0)
        recurse(depth + 1, 2 + tagId % 2);
    };
  };
  dispenso::ConcurrentTaskSet& ts = *gi->cts;
  switch (arity) {
    case 1:
      dispenso::parallel_invoke(ts, fn(tags[0]));
      break;
    case 2:
      dispenso::parallel_invoke(ts, fn(tags[0]), fn(tags[1]));
      break;
    case 3:
      dispenso::parallel_invoke(ts, fn(tags[0]), fn(tags[1]), fn(tags[2]));
      break;
    case 4:
      dispenso::parallel_invoke(ts, fn(tags[0]), fn(tags[1]), fn(tags[2]), fn(tags[3]));
      break;
    case 5:
      dispenso::parallel_invoke(ts, fn(tags[0]), fn(tags[1]), fn(tags[2]), fn(tags[3]), fn(tags[4]));
      break;
    default:
      dispenso::parallel_invoke(ts, fn(tags[0]), fn(tags[1]), fn(tags[2]), fn(tags[3]), fn(tags[4]), fn(tags[5]));
      break;
  }
  TagInfo& last = tag(tags[arity - 1]);
  if (last.finishes != 1 || last.start_tid != caller) {
    char cls[96];
    snprintf(cls, sizeof cls, "parallel_invoke:last-functor-not-on-caller:arity%d", arity);
    sim_fail(cls, "last functor: finishes=%d tid=%d caller=%d", last.finishes, last.start_tid, caller);
  }
}
static void recurse(int depth, int arity) {
  invokeN(depth, arity);
}

static void wlInvoke() {
  tagsReset();
  InvokeCtx ic;
  gi = &ic;
  int nThreads = range(0, 4);
  int mult = range(1, 3) == 3 ? 32 : range(1, 2);
  ic.maxDepth = range(0, 5);
  int arity = range(1, 6);
  sim_note("threads", nThreads);
  sim_note("depth", ic.maxDepth);
  sim_note("arity", arity);
  dispenso::ThreadPool pool((size_t)nThreads, (size_t)mult);
  static const int steal[] = {4, 1, 2};
  dispenso::ConcurrentTaskSet cts(pool, dispenso::ParentCascadeCancel::kOff, oneOf(steal),
                                  chance(1, 2) ? dispenso::TaskCost::kHeavy : dispenso::TaskCost::kLightweight);
  ic.cts = &cts;
  invokeN(0, arity);
  cts.wait();
  for (int i = 0; i < tagCount(); ++i) {
    TagInfo& t = tag(i);
    if (t.starts != 1 || t.finishes != 1) {
      char cls[96];
      snprintf(cls, sizeof cls, "parallel_invoke:%s:depth%d", t.starts == 0 ? "lost" : "unfinished-at-wait", (int)t.aux);
      sim_fail(cls, "functor %d starts=%d finishes=%d after wait()", i, t.starts, t.finishes);
    }
    tagObserve(i);
  }
}

// Deep, unbalanced recursion through the FIRST functor on a task set that stays loaded: the forked functor
// is run inline (overloaded set) until the inline-depth limit is reached, after which it has to be queued
// - exactly once.  Depth and load are both needed; balanced shallow recursions never get there.
static void deepLevel(int depth, int maxDepth) {
  int t0 = tagNew(2, depth), t1 = tagNew(2, depth);
  int caller = sim_tid();
  dispenso::parallel_invoke(
      *gi->cts,
      [t0, depth, maxDepth]() {
        leaf(t0);
        if (depth < maxDepth)
          deepLevel(depth + 1, maxDepth);
      },
      [t1]() { leaf(t1); });
  TagInfo& last = tag(t1);
  if (last.finishes != 1 || last.start_tid != caller)
    sim_fail("parallel_invoke:last-functor-not-on-caller:deep", "level %d: last functor finishes=%d tid=%d caller=%d", depth,
             last.finishes, last.start_tid, caller);
}
static void wlInvokeDeep() {
  tagsReset();
  InvokeCtx ic;
  gi = &ic;
  int nThreads = range(1, 3);
  int maxDepth = range(10, 70);
  int parked = 2 * nThreads + range(0, 6);
  sim_note("threads", nThreads);
  sim_note("depth", maxDepth);
  sim_note("parked", parked);
  SimLatch release(1);
  dispenso::ThreadPool pool((size_t)nThreads, (size_t)range(1, 2));
  dispenso::ConcurrentTaskSet cts(pool, dispenso::ParentCascadeCancel::kOff, 1,
                                  chance(1, 2) ? dispenso::TaskCost::kHeavy : dispenso::TaskCost::kLightweight);
  ic.cts = &cts;
  ic.maxDepth = maxDepth;
  // keep the set above its inline threshold for the whole recursion
  for (int i = 0; i < parked; ++i)
    cts.schedule([&release]() { release.wait(); }, dispenso::ForceQueuingTag());
  deepLevel(0, maxDepth);
  release.countDown();
  cts.wait();
  for (int i = 0; i < tagCount(); ++i) {
    TagInfo& t = tag(i);
    if (t.starts != 1 || t.finishes != 1) {
      char cls[96];
      snprintf(cls, sizeof cls, "parallel_invoke:%s:deep", t.starts == 0 ? "lost" : (t.starts > 1 ? "dup" : "unfinished-at-wait"));
      sim_fail(cls, "functor %d (level %d) starts=%d finishes=%d after wait()", i, (int)t.aux, t.starts, t.finishes);
    }
    tagObserve(i);
  }
}

// A long chain of functors, each scheduling the next into the same set from inside its own body, started
// by the owner thread on a pool whose workers are busy: the first ~32 links run inline (nested), the link
// at the inline-depth limit has to be queued - and must still count for wait()/tryWait()/the destructor.
struct DeepCtx {
  dispenso::ConcurrentTaskSet* cts;
  int depth;
  int tags[64];
};
static DeepCtx* gd;
static void deepLink(int i) {
  TagInfo& t = tag(gd->tags[i]);
  if (t.starts >= 1)
    sim_fail("deep-chain:dup", "link %d ran twice", i);
  tagStart(gd->tags[i]);
  sim_work(1);
  if (i + 1 < gd->depth)
    gd->cts->schedule([i]() { deepLink(i + 1); });
  sim_work(1);
  tagFinish(gd->tags[i]);
}
static void wlBarrierDeep() {
  tagsReset();
  DeepCtx dc;
  gd = &dc;
  int nThreads = range(1, 2);
  dc.depth = range(30, 44);
  int fillers = range(2, 12);
  bool heavy = chance(2, 3);
  int endMode = (int)pick(3); // 0 wait, 1 tryWait loop, 2 destructor
  sim_note("threads", nThreads);
  sim_note("depth", dc.depth);
  sim_note("heavy", heavy);
  sim_note("end", endMode);
  SimLatch release(1);
  dispenso::ThreadPool pool((size_t)nThreads, (size_t)1);
  {
    dispenso::ConcurrentTaskSet cts(pool, heavy ? dispenso::TaskCost::kHeavy : dispenso::TaskCost::kLightweight);
    dc.cts = &cts;
    for (int i = 0; i < nThreads; ++i)
      cts.schedule([&release]() { release.wait(); }, dispenso::ForceQueuingTag());
    for (int i = 0; i < fillers; ++i) {
      int tg = tagNew(90);
      cts.schedule(
          [tg]() {
            tagStart(tg);
            sim_work(1);
            tagFinish(tg);
          },
          dispenso::ForceQueuingTag());
    }
    for (int i = 0; i < dc.depth; ++i)
      dc.tags[i] = tagNew(91);
    deepLink(0); // the owner thread runs the head of the chain itself
    if (cts.tryWait(0)) {
      for (int i = 0; i < tagCount(); ++i)
        if (tag(i).finishes != 1)
          sim_fail(heavy ? "deep-chain:CTS-heavy:running-at-tryWait" : "deep-chain:CTS-light:running-at-tryWait",
                   "tryWait(0) reported completion while task %d has not finished (workers still parked)", i);
    }
    release.countDown();
    auto all = [&](const char* how) {
      for (int i = 0; i < tagCount(); ++i) {
        if (tag(i).finishes != 1) {
          char cls[96];
          snprintf(cls, sizeof cls, "deep-chain:CTS-%s:%s-at-%s", heavy ? "heavy" : "light", tag(i).starts ? "running" : "not-run", how);
          sim_fail(cls, "%s returned while task %d (api %d) has starts=%d finishes=%d", how, i, tag(i).api, tag(i).starts,
                   tag(i).finishes);
        }
        tagObserve(i);
      }
    };
    if (endMode == 0) {
      cts.wait();
      all("wait");
    } else if (endMode == 1) {
      // (no iteration bound: a queued task may legitimately have to wait for a worker's sleep backstop - that is
      // C07's business - and a bounded loop that gives up would blame the barrier for it; a tryWait that never
      // reports completion is caught by the hang detector)
      while (!cts.tryWait(1))
        sim_sleep_ns(20000);
      all("tryWait");
    }
  }
  for (int i = 0; i < tagCount(); ++i)
    if (tag(i).finishes != 1) {
      char cls[96];
      snprintf(cls, sizeof cls, "deep-chain:CTS-%s:%s-at-dtor", heavy ? "heavy" : "light", tag(i).starts ? "running" : "not-run");
      sim_fail(cls, "destructor returned while task %d has starts=%d finishes=%d", i, tag(i).starts, tag(i).finishes);
    }
}

} // namespace

HX_WORKLOAD("C02", "barrier", wlBarrier, SF_ALL | SF_TSO, 4000000, 4000000, 3);
HX_WORKLOAD("C02", "barrier-deep", wlBarrierDeep, SF_ALL | SF_TSO, 2000000, 2000000, 1);
HX_WORKLOAD("C04", "cancel", wlCancel, SF_ALL, 4000000, 4000000, 1);
HX_WORKLOAD("C05", "throw", wlThrow, SF_ALL | SF_TSO, 4000000, 4000000, 1);
HX_WORKLOAD("C47", "taskset-fq", wlFQ, SF_ALL, 4000000, 4000000, 1);
HX_WORKLOAD("C16", "invoke", wlInvoke, SF_ALL | SF_TSO, 4000000, 4000000, 2);
HX_WORKLOAD("C16", "invoke-deep", wlInvokeDeep, SF_ALL | SF_TSO, 4000000, 4000000, 1);
