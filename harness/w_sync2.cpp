// Workload family `sync` (part 2): RWLock (C22), DistributedRWLock (C23), AsyncRequest (C24),
// ResourcePool (C25).
#include <dispenso/async_request.h>
#include <dispenso/distributed_rw_lock.h>
#include <dispenso/resource_pool.h>
#include <dispenso/rw_lock.h>

#include <memory>
#include <thread>
#include <vector>

#include "hx.h"

using namespace hx;

namespace {

// ---------------------------------------------------------------------------------------------
// occupancy oracle shared by C22 / C23
// ---------------------------------------------------------------------------------------------
struct Occupancy {
  int writers = 0;
  int readers = 0;
  const char* prefix = "";
  char data = 0; // C10: the data the lock protects; written by writers, read by readers
  void enterWrite(const char* how) {
    if (writers != 0 || readers != 0) {
      char cls[128];
      snprintf(cls, sizeof cls, "%s:exclusion:%s-admitted-with-%s", prefix, how, writers ? "writer" : "reader");
      sim_fail(cls, "%s acquired while writers=%d readers=%d", how, writers, readers);
    }
    writers++;
    raceW(&data, "write-under-exclusive-lock");
  }
  void leaveWrite() {
    writers--;
  }
  void enterRead(const char* how) {
    if (writers != 0) {
      char cls[128];
      snprintf(cls, sizeof cls, "%s:exclusion:%s-admitted-with-writer", prefix, how);
      sim_fail(cls, "%s acquired while writers=%d", how, writers);
    }
    readers++;
    raceR(&data, "read-under-shared-lock");
  }
  void leaveRead() {
    readers--;
  }
};

enum LOp { L_W = 0, L_TW, L_R, L_TR, L_UPGRADE, L_UPGRADE_DOWNGRADE, L_W_DOWNGRADE, L_N };

static void wlRWLock() {
  Occupancy occ;
  occ.prefix = "RWLock";
  int nThreads = range(2, 4);
  bool useUpgrade = chance(1, 3);
  sim_note("threads", nThreads);
  sim_note("upgrade", useUpgrade);
  auto lockOwner = hx::heapNew<dispenso::RWLock>(); // heap: store-buffer fault
  dispenso::RWLock& lock = *lockOwner;
  std::vector<std::vector<int>> plans((size_t)nThreads);
  for (int t = 0; t < nThreads; ++t) {
    int n = range(1, 6);
    for (int i = 0; i < n; ++i) {
      int op;
      if (useUpgrade) {
        // documented precondition of lock_upgrade: only one thread may ever lock for write
        op = t == 0 ? (int)pick(L_N) : (chance(1, 2) ? L_R : L_TR);
      } else {
        op = (int)pick(4);
      }
      plans[(size_t)t].push_back(op);
    }
  }
  std::vector<std::thread> threads;
  for (int t = 0; t < nThreads; ++t) {
    threads.emplace_back([&, t]() {
      for (int op : plans[(size_t)t]) {
        int w = 1 + (int)(sim_step() % 3);
        switch (op) {
          case L_W:
            lock.lock();
            occ.enterWrite("lock");
            sim_work(w);
            occ.leaveWrite();
            lock.unlock();
            break;
          case L_TW:
            if (lock.try_lock()) {
              occ.enterWrite("try_lock");
              sim_work(w);
              occ.leaveWrite();
              lock.unlock();
            }
            break;
          case L_R:
            lock.lock_shared();
            occ.enterRead("lock_shared");
            sim_work(w);
            occ.leaveRead();
            lock.unlock_shared();
            break;
          case L_TR:
            if (lock.try_lock_shared()) {
              occ.enterRead("try_lock_shared");
              sim_work(w);
              occ.leaveRead();
              lock.unlock_shared();
            }
            break;
          case L_UPGRADE:
          case L_UPGRADE_DOWNGRADE:
            lock.lock_shared();
            occ.enterRead("lock_shared");
            sim_work(1);
            occ.leaveRead();
            lock.lock_upgrade();
            occ.enterWrite("lock_upgrade");
            sim_work(w);
            occ.leaveWrite();
            if (op == L_UPGRADE) {
              lock.unlock();
            } else {
              // becoming a reader and releasing the write lock is one step for observers: count
              // ourselves as reader first (the lock admits us before dropping the writer bit)
              lock.lock_downgrade();
              occ.enterRead("lock_downgrade");
              sim_work(1);
              occ.leaveRead();
              lock.unlock_shared();
            }
            break;
          default: // L_W_DOWNGRADE
            lock.lock();
            occ.enterWrite("lock");
            sim_work(w);
            occ.leaveWrite();
            lock.lock_downgrade();
            occ.enterRead("lock_downgrade");
            sim_work(1);
            occ.leaveRead();
            lock.unlock_shared();
            break;
        }
      }
    });
  }
  for (auto& t : threads)
    t.join();
  // quiescent: both kinds must be admitted again
  if (!lock.try_lock_shared())
    sim_fail("RWLock:residue:reader-refused-when-idle", "idle lock refuses a reader");
  lock.unlock_shared();
  if (!lock.try_lock())
    sim_fail("RWLock:residue:writer-refused-when-idle", "idle lock refuses a writer");
  lock.unlock();
}

template <size_t N>
static void distributedRun(bool publicClass) {
  Occupancy occ;
  occ.prefix = "DistributedRWLock";
  int nThreads = range(2, 4);
  sim_note("threads", nThreads);
  sim_note("slots", (int64_t)N);
  sim_note("public", publicClass);
  auto implOwner = hx::heapNew<dispenso::detail::DistributedRWLockImpl<N>>();
  auto pubOwner = hx::heapNew<dispenso::DistributedRWLock<N>>(); // heap: store-buffer fault
  dispenso::detail::DistributedRWLockImpl<N>& impl = *implOwner;
  dispenso::DistributedRWLock<N>& pub = *pubOwner;
  struct Step {
    int op; // 0 read, 1 try-read, 2 lock, 3 try_lock
    size_t slot;
  };
  std::vector<std::vector<Step>> plans((size_t)nThreads);
  for (int t = 0; t < nThreads; ++t) {
    int n = range(1, 5);
    for (int i = 0; i < n; ++i)
      plans[(size_t)t].push_back(Step{(int)pick(4), (size_t)pick(64)});
  }
  std::vector<std::thread> threads;
  for (int t = 0; t < nThreads; ++t) {
    threads.emplace_back([&, t]() {
      for (const Step& s : plans[(size_t)t]) {
        int w = 1 + (int)(sim_step() % 3);
        switch (s.op) {
          case 0:
            if (publicClass)
              pub.lock_shared();
            else
              impl.lock_shared(s.slot);
            occ.enterRead("lock_shared");
            sim_work(w);
            occ.leaveRead();
            if (publicClass)
              pub.unlock_shared();
            else
              impl.unlock_shared(s.slot);
            break;
          case 1: {
            bool ok = publicClass ? pub.try_lock_shared() : impl.try_lock_shared(s.slot);
            if (ok) {
              occ.enterRead("try_lock_shared");
              sim_work(w);
              occ.leaveRead();
              if (publicClass)
                pub.unlock_shared();
              else
                impl.unlock_shared(s.slot);
            }
            break;
          }
          case 2:
            if (publicClass)
              pub.lock();
            else
              impl.lock();
            occ.enterWrite("lock");
            sim_work(w);
            occ.leaveWrite();
            if (publicClass)
              pub.unlock();
            else
              impl.unlock();
            break;
          default: {
            bool ok = publicClass ? pub.try_lock() : impl.try_lock();
            if (ok) {
              occ.enterWrite("try_lock");
              sim_work(w);
              occ.leaveWrite();
              if (publicClass)
                pub.unlock();
              else
                impl.unlock();
            }
            break;
          }
        }
      }
    });
  }
  for (auto& t : threads)
    t.join();
  // a failed try_lock must leave no trace: every slot admits a reader, then a writer gets in
  for (size_t i = 0; i < N; ++i) {
    if (!impl.try_lock_shared(i)) {
      char cls[96];
      snprintf(cls, sizeof cls, "DistributedRWLock:residue:slot-refuses-reader:N%zu", N);
      sim_fail(cls, "after quiescence slot %zu refuses a reader", i);
    }
    impl.unlock_shared(i);
  }
  if (!impl.try_lock()) {
    char cls[96];
    snprintf(cls, sizeof cls, "DistributedRWLock:residue:refuses-writer:N%zu", N);
    sim_fail(cls, "after quiescence try_lock() fails");
  }
  impl.unlock();
  if (!pub.try_lock())
    sim_fail("DistributedRWLock:residue:public-refuses-writer", "after quiescence the public lock refuses a writer");
  pub.unlock();
}

static void wlDistRW() {
  bool pub = chance(1, 3);
  switch (pick(4)) {
    case 0:
      distributedRun<1>(pub);
      break;
    case 1:
      distributedRun<2>(pub);
      break;
    case 2:
      distributedRun<4>(pub);
      break;
    default:
      distributedRun<16>(pub);
      break;
  }
}

// ---------------------------------------------------------------------------------------------
// C24 AsyncRequest
// ---------------------------------------------------------------------------------------------
struct Val {
  int tag = -1;
  bool moved = false;
  Val() {
    raceW(this, "request-value");
  }
  explicit Val(int t) : tag(t) {
    raceW(this, "request-value");
  }
  Val(Val&& o) noexcept : tag(o.tag), moved(false) {
    raceW(&o, "request-value");
    raceW(this, "request-value");
    o.moved = true;
  }
  Val& operator=(Val&& o) noexcept {
    raceW(&o, "request-value");
    raceW(this, "request-value");
    tag = o.tag;
    moved = false;
    o.moved = true;
    return *this;
  }
  Val(const Val& o) : tag(o.tag), moved(o.moved) {
    raceR(&o, "request-value");
    raceW(this, "request-value");
  }
  Val& operator=(const Val& o) {
    raceR(&o, "request-value");
    raceW(this, "request-value");
    tag = o.tag;
    moved = o.moved;
    return *this;
  }
  ~Val() {
    raceW(this, "request-value");
  }
};

static void wlAsyncRequest() {
  int nCons = range(1, 3);
  int nProd = range(1, 3);
  sim_note("consumers", nCons);
  sim_note("producers", nProd);
  auto reqOwner = hx::heapNew<dispenso::AsyncRequest<Val>>(); // heap: store-buffer fault
  dispenso::AsyncRequest<Val>& req = *reqOwner;
  struct Hist {
    int requestsInvoked = 0;
    int emplaceOk = 0;
    int deliveriesInvoked = 0; // getUpdate calls invoked so far
    int deliveriesWithValue = 0;
    std::vector<int> emplaced;  // per tag: 1 once tryEmplaceUpdate(tag) returned true (or is known to have claimed)
    std::vector<int> delivered; // per tag
    int nextTag = 0;
  } h;
  h.emplaced.assign(64, 0);
  h.delivered.assign(64, 0);
  std::vector<std::thread> threads;
  int opsPerThread = range(1, 4);
  for (int c = 0; c < nCons; ++c) {
    threads.emplace_back([&]() {
      for (int i = 0; i < opsPerThread; ++i) {
        h.requestsInvoked++;
        req.requestUpdate();
        sim_work(1 + (int)(sim_step() % 4));
        (void)req.updateRequested();
        for (int k = 0; k < 3; ++k) {
          h.deliveriesInvoked++;
          auto r = req.getUpdate();
          if (r) {
            int tagv = r.value().tag;
            if (tagv < 0 || tagv >= 64 || r.value().moved) {
              sim_fail("AsyncRequest:garbage-delivery", "getUpdate returned a moved-from or garbage value (tag %d)", tagv);
            }
            if (!h.emplaced[(size_t)tagv])
              sim_fail("AsyncRequest:delivery-without-emplace", "getUpdate returned tag %d that was never emplaced", tagv);
            if (++h.delivered[(size_t)tagv] > 1) {
              char cls[96];
              snprintf(cls, sizeof cls, "AsyncRequest:dup-delivery:consumers%d", nCons > 1 ? 2 : 1);
              sim_fail(cls, "tag %d delivered %d times", tagv, h.delivered[(size_t)tagv]);
            }
            h.deliveriesWithValue++;
            break;
          }
          sim_work(2);
        }
      }
    });
  }
  for (int p = 0; p < nProd; ++p) {
    threads.emplace_back([&]() {
      for (int i = 0; i < opsPerThread * 2; ++i) {
        int tagv = h.nextTag++;
        if (tagv >= 64)
          break;
        // mark before the call: a consumer may see the value before tryEmplaceUpdate returns
        h.emplaced[(size_t)tagv] = 1;
        int reqBefore = h.requestsInvoked;
        (void)reqBefore;
        bool ok = req.tryEmplaceUpdate(tagv);
        if (ok) {
          h.emplaceOk++;
          // cyclic protocol: the k-th successful emplace needs k requests invoked and k-1 values taken
          if (h.emplaceOk > h.requestsInvoked)
            sim_fail("AsyncRequest:emplace-without-request", "%d successful emplaces but only %d requestUpdate() calls invoked",
                     h.emplaceOk, h.requestsInvoked);
          if (h.emplaceOk - 1 > h.deliveriesInvoked)
            sim_fail("AsyncRequest:emplace-over-unfetched-value", "emplace #%d succeeded with only %d getUpdate() calls invoked",
                     h.emplaceOk, h.deliveriesInvoked);
        } else {
          h.emplaced[(size_t)tagv] = 0;
        }
        sim_work(1 + (int)(sim_step() % 3));
      }
    });
  }
  for (auto& t : threads)
    t.join();
  if (h.deliveriesWithValue > h.emplaceOk)
    sim_fail("AsyncRequest:more-deliveries-than-emplaces", "%d deliveries, %d successful emplaces", h.deliveriesWithValue,
             h.emplaceOk);
}

// ---------------------------------------------------------------------------------------------
// C25 ResourcePool
// ---------------------------------------------------------------------------------------------
struct Res {
  static int live;
  static int constructed;
  static int destroyed;
  int holders = 0;
  int id;
  Res() : id(constructed++) {
    live++;
  }
  Res(const Res& o) : holders(0), id(o.id) {
    live++;
  }
  ~Res() {
    live--;
    destroyed++;
  }
};
int Res::live = 0;
int Res::constructed = 0;
int Res::destroyed = 0;

static void wlResourcePool() {
  Res::live = Res::constructed = Res::destroyed = 0;
  int size = range(1, 4);
  int nThreads = range(2, 5);
  bool allowTwo = size >= 2 * nThreads || (size >= 2 && nThreads == 1);
  sim_note("size", size);
  sim_note("threads", nThreads);
  int held = 0;
  int maxHeld = 0;
  {
    dispenso::ResourcePool<Res> pool((size_t)size, []() { return Res(); });
    int liveAfterInit = Res::live;
    if (liveAfterInit != size)
      sim_fail("ResourcePool:init-count", "%d live resources after constructing a pool of %d", liveAfterInit, size);
    std::vector<std::thread> threads;
    for (int t = 0; t < nThreads; ++t) {
      int ops = range(1, 5);
      threads.emplace_back([&, ops]() {
        for (int i = 0; i < ops; ++i) {
          auto r = pool.acquire();
          Res& x = r.get();
          if (x.holders++ != 0)
            sim_fail("ResourcePool:resource-held-twice", "resource %d handed to two holders", x.id);
          raceW(&x, "resource-in-use");
          if (++held > maxHeld)
            maxHeld = held;
          if (held > size)
            sim_fail("ResourcePool:more-held-than-size", "%d resources held, pool size %d", held, size);
          sim_work(1 + (int)(sim_step() % 4));
          if (allowTwo && (sim_step() & 1)) {
            // move-assign a second acquisition onto the live handle: the old one must be recycled
            auto r2 = pool.acquire();
            Res& y = r2.get();
            if (y.holders++ != 0)
              sim_fail("ResourcePool:resource-held-twice", "resource %d handed to two holders", y.id);
            raceW(&y, "resource-in-use");
            ++held;
            x.holders--;
            --held;
            r = std::move(r2);
            sim_work(1);
            Res& z = r.get();
            if (&z != &y)
              sim_fail("ResourcePool:move-assign-wrong-target", "handle does not refer to the moved resource");
            z.holders--;
            --held;
          } else {
            x.holders--;
            --held;
          }
        }
      });
    }
    for (auto& t : threads)
      t.join();
  }
  if (Res::live != 0) {
    sim_fail("ResourcePool:destruction-imbalance", "%d resources alive after the pool was destroyed (constructed %d destroyed %d)",
             Res::live, Res::constructed, Res::destroyed);
  }
}

} // namespace

HX_WORKLOAD("C22", "rwlock", wlRWLock, SF_ALL | SF_TSO, 2000000, 2000000, 1);
HX_WORKLOAD("C23", "distributed-rwlock", wlDistRW, SF_ALL | SF_TSO, 2000000, 2000000, 1);
HX_WORKLOAD("C24", "async-request", wlAsyncRequest, SF_ALL | SF_TSO, 1000000, 1000000, 1);
HX_WORKLOAD("C25", "resource-pool", wlResourcePool, SF_ALL | SF_TSO, 2000000, 2000000, 1);
