// simcheck driver: workload registry, oracle bookkeeping, fork-per-run batch loop, replay.
// Compiled WITHOUT the atomics/coverage instrumentation (bookkeeping must be invisible to the
// simulator and atomic with respect to pre-emption).
#include <errno.h>
#include <fcntl.h>
#include <signal.h>
#include <stdlib.h>
#include <sys/personality.h>
#include <sys/stat.h>
#include <sys/wait.h>
#include <time.h>
#include <unistd.h>

#include <algorithm>
#include <string>
#include <vector>

#include "hx.h"

namespace hx {

static std::vector<Workload>& registry() {
  static std::vector<Workload>* r = new std::vector<Workload>();
  return *r;
}
void registerWorkload(const Workload& w) {
  registry().push_back(w);
}

// ---- tags ----
static std::vector<TagInfo>* g_tags;
static __thread int tl_depth;
static int g_depth_max;

// stand-ins for a task's captured input and for its output (declared accesses, see hx.h)
static char g_tag_cells[1 << 16][2];
static inline char* tagCell(int id, int which) {
  return &g_tag_cells[(size_t)id & 0xffff][which];
}
int tagNew(int api, int64_t aux) {
  if (!g_tags)
    g_tags = new std::vector<TagInfo>();
  raceW(tagCell((int)g_tags->size(), 0), "task-input");
  TagInfo t;
  memset(&t, 0, sizeof t);
  t.api = api;
  t.aux = aux;
  t.start_tid = -1;
  t.submit_step = sim_step();
  g_tags->push_back(t);
  return (int)g_tags->size() - 1;
}
int tagCount() {
  return g_tags ? (int)g_tags->size() : 0;
}
TagInfo& tag(int id) {
  return (*g_tags)[(size_t)id];
}
void tagStart(int id) {
  TagInfo& t = tag(id);
  t.starts++;
  t.start_tid = sim_tid();
  t.start_step = sim_step();
  t.start_last_load_step = sim_last_load_step();
  raceR(tagCell(id, 0), "task-input");
  sim_event(1, id, t.starts);
}
void tagFinish(int id) {
  TagInfo& t = tag(id);
  t.finishes++;
  t.finish_step = sim_step();
  raceW(tagCell(id, 1), "task-output");
  sim_event(2, id, t.finishes);
}
void tagObserve(int id) {
  if (tag(id).finishes)
    raceR(tagCell(id, 1), "task-output");
}
void tagsReset() {
  if (g_tags)
    g_tags->clear();
}
int depthEnter() {
  int d = ++tl_depth;
  if (d > g_depth_max)
    g_depth_max = d;
  return d;
}
void depthLeave() {
  --tl_depth;
}
int depthMax() {
  return g_depth_max;
}
static std::vector<void*>* g_kept;
void keepAlive(void* p) {
  if (!g_kept)
    g_kept = new std::vector<void*>();
  g_kept->push_back(p);
}

} // namespace hx

using hx::Workload;

extern "C" int __lsan_do_recoverable_leak_check() __attribute__((weak));
extern "C" void __asan_init() __attribute__((weak));

static uint64_t mix(uint64_t z) {
  z += 0x9e3779b97f4a7c15ull;
  z = (z ^ (z >> 30)) * 0xbf58476d1ce4e5b9ull;
  z = (z ^ (z >> 27)) * 0x94d049bb133111ebull;
  return z ^ (z >> 31);
}

static std::vector<const Workload*> select(const char* prop, const char* wname, int tier) {
  std::vector<const Workload*> v;
  for (const Workload& w : hx::registry()) {
    // "ALL" (used by the whole-library sanitizer checks C10/C11) selects every workload
    // "RACE" (C10) does the same with the happens-before race detector switched on
    if (strcmp(prop, "ALL") && strcmp(prop, "RACE") && strcmp(w.prop, prop))
      continue;
    if (!strcmp(w.prop, "SELFTEST") && strcmp(prop, "SELFTEST"))
      continue;
    if (wname && strcmp(w.name, wname))
      continue;
    if (!wname && w.min_tier > tier)
      continue;
    v.push_back(&w);
  }
  return v;
}

static const Workload* choose(const std::vector<const Workload*>& v, uint64_t seed) {
  int total = 0;
  for (auto* w : v)
    total += w->weight;
  int r = (int)(mix(seed ^ 0x5eed) % (uint64_t)total);
  for (auto* w : v) {
    if (r < w->weight)
      return w;
    r -= w->weight;
  }
  return v[0];
}

struct Args {
  const char* prop = nullptr;
  const char* workload = nullptr;
  uint64_t seed_base = 1;
  uint64_t count = 1;
  double time_budget = 0;
  const char* outdir = "/tmp";
  const char* replay = nullptr;
  const char* trace = nullptr;
  bool twice = false;
  bool list = false;
  int tier = 0;
  int policy = -1;
  uint64_t explore_override = 0;
  int mode = 0; // 0 property oracles, 1 memory-only (C11), 2 data-race-only (C10)
};

static double nowSec() {
  struct timespec ts;
  clock_gettime(CLOCK_MONOTONIC, &ts);
  return (double)ts.tv_sec + 1e-9 * (double)ts.tv_nsec;
}

// runs in the forked child
static void runOne(const Workload* w, uint64_t seed, const Args& a, const char* recordPath, const char* tracePath) {
  SimOpts o;
  sim_opts_default(&o);
  o.seed = seed;
  o.fault_mask = w->fault_mask;
  if (getenv("SIMRT_TSO_ALL")) // exploratory: store buffering in every workload (oracles may assume SC: not for claims)
    o.fault_mask |= SF_TSO;
  o.explore_steps = a.explore_override ? a.explore_override : w->explore_steps;
  o.tail_steps = w->tail_steps;
  o.force_policy = a.policy;
  o.replay_path = a.replay;
  o.record_path = recordPath;
  o.trace_path = tracePath;
  o.prop = w->prop;
  o.workload = w->name;
  // SIM+ASAN engine: pre-emption comes from the coverage guard quantum (see simrt.cpp)
  if (__asan_init)
    o.pcguard_quantum_max = 150;
  if (a.mode == 1)
    sim_set_memonly(1);
  if (a.mode == 2) {
    sim_set_memonly(2);
    sim_race_enable(1);
  }
  alarm(300);
  sim_begin(&o);
  sim_note(w->name, 0);
  w->fn();
  sim_end();
  sim_report_soft();
  if (__lsan_do_recoverable_leak_check && __lsan_do_recoverable_leak_check()) {
    // the report went to stderr (kept by the parent); classify as a leak
    char lbuf[8192];
    sim_result_line(lbuf, sizeof lbuf, "leak", "lsan", "LeakSanitizer reported unreachable memory (see stderr file)");
    ssize_t lr = write(1, lbuf, strlen(lbuf));
    (void)lr;
    _exit(78);
  }
  char buf[8192];
  sim_result_line(buf, sizeof buf, "ok", "", "");
  ssize_t r = write(1, buf, strlen(buf));
  (void)r;
  _exit(0);
}

static int forkRun(const Workload* w, uint64_t seed, const Args& a, const char* recordPath, const char* tracePath,
                   const char* errPath) {
  fflush(stdout);
  pid_t pid = fork();
  if (pid == 0) {
    if (errPath) {
      int fd = open(errPath, O_WRONLY | O_CREAT | O_TRUNC, 0644);
      if (fd >= 0) {
        dup2(fd, 2);
        close(fd);
      }
    }
    runOne(w, seed, a, recordPath, tracePath);
    _exit(0);
  }
  int status = 0;
  while (waitpid(pid, &status, 0) < 0 && errno == EINTR) {
  }
  return status;
}

static void readField(const char* path, const char* key, char* out, size_t n) {
  out[0] = 0;
  FILE* f = fopen(path, "r");
  if (!f)
    return;
  char line[4096];
  size_t kl = strlen(key);
  while (fgets(line, sizeof line, f)) {
    if (!strncmp(line, key, kl) && line[kl] == ' ') {
      strncpy(out, line + kl + 1, n - 1);
      out[n - 1] = 0;
      size_t l = strlen(out);
      while (l && (out[l - 1] == '\n' || out[l - 1] == '\r'))
        out[--l] = 0;
      break;
    }
    if (!strncmp(line, "trace ", 6))
      break;
  }
  fclose(f);
}

int main(int argc, char** argv) {
  // The batch parent must look the same to every forked child (address-dependent behaviour in
  // the code under test must not depend on how many result lines the parent has printed): give
  // stdio a static buffer so it never allocates.
  static char outbuf[1 << 16];
  setvbuf(stdout, outbuf, _IOLBF, sizeof outbuf);
  Args a;
  for (int i = 1; i < argc; ++i) {
    auto is = [&](const char* s) { return !strcmp(argv[i], s); };
    if (is("--prop") && i + 1 < argc)
      a.prop = argv[++i];
    else if (is("--workload") && i + 1 < argc)
      a.workload = argv[++i];
    else if (is("--seed-base") && i + 1 < argc)
      a.seed_base = strtoull(argv[++i], nullptr, 10);
    else if (is("--count") && i + 1 < argc)
      a.count = strtoull(argv[++i], nullptr, 10);
    else if (is("--time") && i + 1 < argc)
      a.time_budget = atof(argv[++i]);
    else if (is("--outdir") && i + 1 < argc)
      a.outdir = argv[++i];
    else if (is("--race"))
      a.mode = 2;
    else if (is("--replay") && i + 1 < argc)
      a.replay = argv[++i];
    else if (is("--trace") && i + 1 < argc)
      a.trace = argv[++i];
    else if (is("--twice"))
      a.twice = true;
    else if (is("--list"))
      a.list = true;
    else if (is("--tier") && i + 1 < argc)
      a.tier = !strcmp(argv[++i], "thorough") ? 1 : 0;
    else if (is("--policy") && i + 1 < argc)
      a.policy = atoi(argv[++i]);
    else if (is("--explore") && i + 1 < argc)
      a.explore_override = strtoull(argv[++i], nullptr, 10);
    else {
      fprintf(stderr, "unknown arg %s\n", argv[i]);
      return 2;
    }
  }
  if (a.list) {
    for (const Workload& w : hx::registry())
      printf("%s %s weight=%d mask=%x explore=%llu tail=%llu tier=%d\n", w.prop, w.name, w.weight, w.fault_mask,
             (unsigned long long)w.explore_steps, (unsigned long long)w.tail_steps, w.min_tier);
    return 0;
  }
  // identical address space for every run: disable ASLR once
  if (!getenv("SIMRT_NOASLR")) {
    setenv("SIMRT_NOASLR", "1", 1);
    int p = personality(0xffffffff);
    if (p != -1 && !(p & ADDR_NO_RANDOMIZE) && personality(p | ADDR_NO_RANDOMIZE) != -1) {
      execv("/proc/self/exe", argv);
    }
  }
  signal(SIGPIPE, SIG_IGN);

  char propbuf[64], wlbuf[128];
  if (a.replay) {
    char seedbuf[64];
    readField(a.replay, "prop", propbuf, sizeof propbuf);
    readField(a.replay, "workload", wlbuf, sizeof wlbuf);
    readField(a.replay, "seed", seedbuf, sizeof seedbuf);
    if (!propbuf[0] || !wlbuf[0]) {
      fprintf(stderr, "bad replay file %s\n", a.replay);
      return 2;
    }
    char modebuf[16];
    readField(a.replay, "mode", modebuf, sizeof modebuf);
    a.mode = atoi(modebuf);
    a.prop = propbuf;
    a.workload = wlbuf;
    a.seed_base = strtoull(seedbuf, nullptr, 10);
    a.count = 1;
  }
  if (!a.prop) {
    fprintf(stderr, "--prop required\n");
    return 2;
  }
  if (!strcmp(a.prop, "ALL"))
    a.mode = 1;
  if (!strcmp(a.prop, "RACE"))
    a.mode = 2;
  std::vector<const Workload*> sel = select(a.prop, a.workload, a.tier);
  if (sel.empty()) {
    fprintf(stderr, "no workload for %s/%s\n", a.prop, a.workload ? a.workload : "*");
    return 2;
  }
  double t0 = nowSec();
  for (uint64_t i = 0; i < a.count; ++i) {
    if (a.time_budget > 0 && nowSec() - t0 > a.time_budget)
      break;
    uint64_t seed = a.seed_base + i;
    const Workload* w = choose(sel, seed);
    char rec[512], err[512];
    snprintf(rec, sizeof rec, "%s/%s-%llu.replay", a.outdir, a.prop, (unsigned long long)seed);
    snprintf(err, sizeof err, "%s/%s-%llu.stderr", a.outdir, a.prop, (unsigned long long)seed);
    const char* recp = a.replay ? nullptr : rec;
    // when replaying, write the (re-recorded) trace next to the input so minimisation can chain
    char rerec[512];
    if (a.replay) {
      snprintf(rerec, sizeof rerec, "%s.out", a.replay);
      recp = rerec;
    }
    int reps = a.twice ? 2 : 1;
    for (int r = 0; r < reps; ++r) {
      int st = forkRun(w, seed, a, recp, a.trace, err);
      if (WIFEXITED(st) && WEXITSTATUS(st) == 78) {
        // leak: the child printed its own result line; keep its stderr (the LSan report)
      } else if (WIFSIGNALED(st) || (WIFEXITED(st) && WEXITSTATUS(st) != 0)) {
        int code = WIFSIGNALED(st) ? WTERMSIG(st) : WEXITSTATUS(st);
        const char* kind = WIFSIGNALED(st) ? (code == SIGALRM ? "timeout" : "crash") : (code == 77 ? "sanitizer" : "crash");
        printf("{\"seed\":%llu,\"status\":\"%s\",\"class\":\"%s-%d\",\"workload\":\"%s\",\"stderr\":\"%s\"}\n",
               (unsigned long long)seed, kind, WIFSIGNALED(st) ? "signal" : "exit", code, w->name, err);
      } else {
        struct stat sb;
        if (stat(err, &sb) == 0 && sb.st_size == 0)
          unlink(err);
      }
      fflush(stdout);
    }
  }
  return 0;
}
