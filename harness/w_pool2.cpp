// Workload family `pool` (part 2): resize (C03), accounting (C08), shutdown/resize completion (C09),
// idle-pool wake without the backstop (C07).
#include <dispenso/parallel_for.h>
#include <dispenso/task_set.h>
#include <dispenso/thread_pool.h>

#include <memory>
#include <thread>
#include <vector>

#include "hx.h"

using namespace hx;

namespace {

enum Api { A_SCHED = 1, A_SCHED_FQ, A_BULK, A_TS_SCHED, A_TS_BULK_RING, A_TS_BULK, A_CTS_SCHED, A_CTS_BULK, A_PARFOR, A_NAPI };
static const char* apiName(int a) {
  static const char* n[] = {"?",           "schedule",    "schedule-fq", "scheduleBulk", "TaskSet-schedule",
                            "TaskSet-bulk-ring", "TaskSet-bulk", "CTS-schedule", "CTS-bulk",  "parallel_for"};
  return a > 0 && a < A_NAPI ? n[a] : "?";
}

struct Ctx {
  dispenso::ThreadPool* pool = nullptr;
  int outstanding = 0;
  const char* phase = "run";
  int inWait = 0; // threads currently inside a wait()/waiting parallel_for of a producer
};
static Ctx* g;

struct Body {
  int tag;
  int work;
  void operator()() {
    TagInfo& t = hx::tag(this->tag);
    if (t.starts >= 1)
      sim_fail((std::string(apiName(t.api)) + ":dup").c_str(), "task %d (%s) ran twice", this->tag, apiName(t.api));
    tagStart(this->tag);
    sim_work(work);
    tagFinish(this->tag);
    g->outstanding--;
  }
};
static Body mk(int api) {
  Body b;
  b.tag = tagNew(api, sim_tid()); // aux = submitting thread
  b.work = range(0, 3);
  g->outstanding++;
  return b;
}

static void hangDesc(char* buf, size_t n) {
  int notStarted = 0, running = 0, firstApi = 0;
  for (int i = 0; i < tagCount(); ++i) {
    if (tag(i).starts == 0) {
      notStarted++;
      if (!firstApi)
        firstApi = tag(i).api;
    } else if (tag(i).finishes == 0)
      running++;
  }
  snprintf(buf, n, "[phase=%s tags=%d stranded=%d(%s) running=%d]", g->phase, tagCount(), notStarted, apiName(firstApi),
           running);
}

static void hangKey(char* buf, size_t n) {
  // which producer's wait it is (and which task kind is stranded) depends on thread timing; the
  // stable part of the key is whether some task-set wait / waiting loop never returned
  if (!strcmp(g->phase, "resize") || !strcmp(g->phase, "~ThreadPool") || !strcmp(g->phase, "setSignalingWake"))
    snprintf(buf, n, "%s-never-returns", g->phase);
  else
    snprintf(buf, n, "%s", g->inWait > 0 ? "taskset-wait-never-returns" : "no-wait-in-progress");
}

static void checkAllOnce(const char* when) {
  for (int i = 0; i < tagCount(); ++i) {
    TagInfo& t = tag(i);
    if (t.starts != 1 || t.finishes != 1) {
      std::string cls = std::string(apiName(t.api)) + (t.starts == 0 ? ":lost" : (t.starts > 1 ? ":dup" : ":unfinished"));
      sim_fail(cls.c_str(), "%s: task %d (%s) starts=%d finishes=%d", when, i, apiName(t.api), t.starts, t.finishes);
    }
    tagObserve(i);
  }
}

// scheduleBulk with the generator contract checked: when the call returns, the generator has been asked
// for every index exactly once (a task that was never generated can never run, whatever happens later)
template <typename S>
static void bulkChecked(S& sched, std::vector<Body>& bs) {
  std::vector<int> asked(bs.size(), 0);
  sched.scheduleBulk(bs.size(), [&bs, &asked](size_t j) {
    asked[j]++;
    return bs[j];
  });
  for (size_t j = 0; j < bs.size(); ++j)
    if (asked[j] != 1) {
      int api = tag(bs[j].tag).api;
      sim_fail((std::string(apiName(api)) + (asked[j] ? ":bulk-index-generated-twice" : ":bulk-index-never-generated")).c_str(),
               "scheduleBulk(%zu) returned having asked the generator %d times for index %zu", bs.size(), asked[j], j);
    }
}

// -------------------------------------------------------------------------------------------
// producers used by C03 / C08
// -------------------------------------------------------------------------------------------
static void directProducer(int nOps) {
  dispenso::ThreadPool& pool = *g->pool;
  for (int i = 0; i < nOps; ++i) {
    switch (pick(3)) {
      case 0:
        pool.schedule(mk(A_SCHED));
        break;
      case 1:
        pool.schedule(mk(A_SCHED_FQ), dispenso::ForceQueuingTag());
        break;
      default: {
        std::vector<Body> bs;
        int n = range(1, 12);
        for (int k = 0; k < n; ++k)
          bs.push_back(mk(A_BULK));
        bulkChecked(pool, bs);
      }
    }
    sim_work((int)pick(3));
  }
}

// TaskSet producer: bulk counts chosen around the current pool size so the ring fast path is taken
static void taskSetProducer(int rounds) {
  dispenso::ThreadPool& pool = *g->pool;
  for (int r = 0; r < rounds; ++r) {
    dispenso::TaskSet ts(pool);
    int first = tagCount();
    int nOps = range(1, 3);
    for (int o = 0; o < nOps; ++o) {
      ssize_t nt = pool.numThreads();
      if (chance(2, 3) && nt > 0) {
        int lo = (int)((nt + 3) / 4), hi = (int)nt;
        int n = range(lo < 1 ? 1 : lo, hi < 1 ? 1 : hi);
        std::vector<Body> bs;
        for (int k = 0; k < n; ++k)
          bs.push_back(mk(A_TS_BULK_RING));
        bulkChecked(ts, bs);
      } else if (chance(1, 2)) {
        std::vector<Body> bs;
        int n = range(1, 10);
        for (int k = 0; k < n; ++k)
          bs.push_back(mk(A_TS_BULK));
        bulkChecked(ts, bs);
      } else {
        ts.schedule(mk(A_TS_SCHED));
      }
    }
    int last = tagCount();
    g->phase = "TaskSet::wait";
    g->inWait++;
    ts.wait();
    g->inWait--;
    g->phase = "run";
    for (int i = first; i < last; ++i) {
      int api = tag(i).api;
      if (tag(i).aux == sim_tid() && (api == A_TS_BULK_RING || api == A_TS_BULK || api == A_TS_SCHED) &&
          tag(i).finishes != 1)
        sim_fail((std::string(apiName(api)) + ":unfinished-at-wait").c_str(), "TaskSet::wait returned, task %d unfinished", i);
    }
  }
}

static void ctsProducer(int rounds) {
  dispenso::ThreadPool& pool = *g->pool;
  for (int r = 0; r < rounds; ++r) {
    dispenso::ConcurrentTaskSet ts(pool, chance(1, 2) ? dispenso::TaskCost::kHeavy : dispenso::TaskCost::kLightweight);
    int nOps = range(1, 3);
    for (int o = 0; o < nOps; ++o) {
      if (chance(1, 2)) {
        std::vector<Body> bs;
        int n = range(1, 8);
        for (int k = 0; k < n; ++k)
          bs.push_back(mk(A_CTS_BULK));
        bulkChecked(ts, bs);
      } else {
        ts.schedule(mk(A_CTS_SCHED));
      }
    }
    g->phase = "CTS::wait";
    g->inWait++;
    ts.wait();
    g->inWait--;
    g->phase = "run";
  }
}

static void parForProducer(int rounds) {
  dispenso::ThreadPool& pool = *g->pool;
  for (int r = 0; r < rounds; ++r) {
    dispenso::TaskSet ts(pool);
    int n = range(1, 24);
    int base = tagCount();
    for (int i = 0; i < n; ++i) {
      tagNew(A_PARFOR);
      g->outstanding++;
    }
    dispenso::ParForOptions opts;
    opts.defaultChunking = chance(1, 2) ? dispenso::ParForChunking::kStatic : dispenso::ParForChunking::kAuto;
    g->phase = "parallel_for";
    g->inWait++;
    dispenso::parallel_for(
        ts, 0, n,
        [base](int i) {
          TagInfo& t = tag(base + i);
          if (t.starts >= 1)
            sim_fail("parallel_for:dup", "index %d ran twice", i);
          tagStart(base + i);
          sim_work(1);
          tagFinish(base + i);
          g->outstanding--;
        },
        opts);
    g->inWait--;
    g->phase = "run";
  }
}

// -------------------------------------------------------------------------------------------
// C03: resize while others produce
// -------------------------------------------------------------------------------------------
static void wlResize() {
  Ctx ctx;
  g = &ctx;
  tagsReset();
  sim_set_hang_describer(hangDesc);
  sim_set_hang_keyer(hangKey);
  int nThreads = range(1, 5);
  static const int mults[] = {32, 1, 2};
  int mult = oneOf(mults);
  sim_note("threads", nThreads);
  sim_note("mult", mult);
  ctx.pool = new dispenso::ThreadPool((size_t)nThreads, (size_t)mult);
  int nResizes = range(1, 4);
  std::vector<int> sizes;
  for (int i = 0; i < nResizes; ++i)
    sizes.push_back(range(0, 5));
  int nProd = range(1, 2);
  std::vector<int> kinds;
  for (int p = 0; p < nProd; ++p)
    kinds.push_back((int)pick(4));
  sim_note("resizes", nResizes);
  sim_note("prodkind", kinds[0] * 4 + (nProd > 1 ? kinds[1] : 0));
  std::vector<std::thread> producers;
  for (int p = 0; p < nProd; ++p) {
    int kind = kinds[(size_t)p];
    int amount = range(1, 4);
    producers.emplace_back([kind, amount]() {
      switch (kind) {
        case 0:
          taskSetProducer(amount);
          break;
        case 1:
          directProducer(amount * 2);
          break;
        case 2:
          ctsProducer(amount);
          break;
        default:
          parForProducer(amount);
          break;
      }
    });
  }
  std::thread admin([&]() {
    for (int s : sizes) {
      sim_work(range(0, 30));
      ctx.pool->resize(s);
    }
  });
  for (auto& t : producers)
    t.join();
  admin.join();
  ctx.phase = "~ThreadPool";
  delete ctx.pool;
  checkAllOnce("after ~ThreadPool");
}

// -------------------------------------------------------------------------------------------
// C08: accounting returns to zero at quiescence
// -------------------------------------------------------------------------------------------
static void waitParked(int nThreads, const char* lastOp) {
  // every task finished; wait (without helping) until each worker is blocked in its futex wait
  for (int i = 0; i < 400000; ++i) {
    if (g->outstanding == 0 && sim_count_blocked(SW_FUTEX) >= nThreads)
      return;
    sim_sleep_ns(5000);
  }
  sim_fail("quiescence-not-reached", "workers never parked after %s (outstanding=%d blocked=%d of %d)", lastOp,
           g->outstanding, sim_count_blocked(SW_FUTEX), nThreads);
}

static void wlAccounting() {
  Ctx ctx;
  g = &ctx;
  tagsReset();
  sim_set_hang_describer(hangDesc);
  sim_set_hang_keyer(hangKey);
  int nThreads = range(1, 5);
  static const int mults[] = {32, 1, 2};
  int mult = oneOf(mults);
  sim_note("threads", nThreads);
  sim_note("mult", mult);
  ctx.pool = new dispenso::ThreadPool((size_t)nThreads, (size_t)mult);
  dispenso::ThreadPool& pool = *ctx.pool;
  int nPhases = range(1, 5);
  sim_note("phases", nPhases);
  for (int ph = 0; ph < nPhases; ++ph) {
    const char* last = "?";
    int cur = (int)pool.numThreads();
    switch (pick(7)) {
      case 0:
        directProducer(range(1, 4));
        last = "direct";
        break;
      case 1:
        taskSetProducer(range(1, 2));
        last = "taskset";
        break;
      case 2:
        ctsProducer(range(1, 2));
        last = "cts";
        break;
      case 3: {
        // ring dispatch immediately followed by a resize from the same thread: the resize may
        // drain ring-resident tasks itself
        dispenso::TaskSet ts(pool);
        if (cur > 0) {
          int n = range((cur + 3) / 4, cur);
          std::vector<Body> bs;
          for (int k = 0; k < n; ++k)
            bs.push_back(mk(A_TS_BULK_RING));
          bulkChecked(ts, bs);
        }
        int ns = range(0, 5);
        pool.resize(ns);
        ts.wait();
        last = "ring-bulk+resize";
        break;
      }
      case 4: {
        // placed (steal-ring) tasks followed by a resize
        dispenso::ConcurrentTaskSet ts(pool, dispenso::TaskCost::kHeavy);
        int n = range(1, 6);
        for (int k = 0; k < n; ++k)
          ts.schedule(mk(A_CTS_SCHED), dispenso::ForceQueuingTag());
        pool.resize(range(0, 5));
        ts.wait();
        last = "placed+resize";
        break;
      }
      case 5: {
        // another thread submits directly (schedule() is lock-free and may race resize()) while this
        // one resizes: every increment made around the resize's drain must still meet its decrement
        int ops = range(1, 6);
        std::thread prod([ops]() { directProducer(ops); });
        int nr = range(1, 3);
        for (int k = 0; k < nr; ++k) {
          sim_work(range(0, 12));
          pool.resize(range(1, 5));
        }
        prod.join();
        last = "concurrent-direct+resize";
        break;
      }
      default:
        pool.resize(range(0, 5));
        last = "resize";
        break;
    }
    int nt = (int)pool.numThreads();
    waitParked(nt, last);
    ssize_t wr = pool.verifWorkRemaining();
    if (wr != 0) {
      std::string cls = std::string("drift-after:") + last + (wr > 0 ? ":positive" : ":negative");
      sim_fail(cls.c_str(), "quiescent pool (all %d tasks finished, %d workers parked) has workRemaining=%lld", tagCount(), nt,
               (long long)wr);
    }
  }
  delete ctx.pool;
  checkAllOnce("after ~ThreadPool");
}

// -------------------------------------------------------------------------------------------
// C09: shutdown / resize / setSignalingWake always complete, without the backstop in wake mode
// -------------------------------------------------------------------------------------------
static void wlShutdown() {
  Ctx ctx;
  g = &ctx;
  tagsReset();
  sim_set_hang_describer(hangDesc);
  sim_set_hang_keyer(hangKey);
  int nThreads = range(1, 8);
  bool poll = chance(1, 5);
  int load = (int)pick(4); // 0 idle, 1 some short tasks, 2 long sleeping bodies, 3 continuous trickle
  int call = (int)pick(3); // 0 destructor, 1 resize, 2 setSignalingWake
  static const int delayMul[] = {1, 8, 40};
  int delay = range(0, 400) * oneOf(delayMul); // up to the moment a default-tuned worker gives up spinning and parks
  sim_note("threads", nThreads);
  sim_note("poll", poll);
  sim_note("load", load);
  sim_note("call", call);
  int threadsBefore = sim_count_threads();
  ctx.pool = new dispenso::ThreadPool((size_t)nThreads);
  dispenso::ThreadPool& pool = *ctx.pool;
  // poll mode: a short period, or one so long that a shutdown which waits for it out is unmistakable
  bool longPoll = poll && chance(1, 2);
  sim_note("longpoll", longPoll);
  if (poll)
    pool.setSignalingWake(false, std::chrono::microseconds(longPoll ? 2000000 : 200));
  if (load == 1 || load == 3) {
    int n = range(1, 20);
    for (int i = 0; i < n; ++i)
      pool.schedule(mk(A_SCHED));
  } else if (load == 2) {
    int n = range(1, nThreads);
    for (int i = 0; i < n; ++i) {
      int id = tagNew(A_SCHED_FQ);
      uint64_t ns = 1000ull * (uint64_t)range(1, 300);
      pool.schedule(
          [id, ns]() {
            tagStart(id);
            sim_sleep_ns(ns);
            tagFinish(id);
          },
          dispenso::ForceQueuingTag());
    }
  }
  // let the workers get to an arbitrary point of their loop (spinning, parking, parked)
  if (chance(1, 3)) {
    for (int i = 0; i < 100000 && sim_count_blocked(SW_FUTEX) < nThreads; ++i)
      sim_sleep_ns(3000);
  } else {
    sim_work(delay);
  }
  // load 3: a producer keeps trickling single tasks, so that workers keep going through the transition from
  // spinning to parked (the moment at which a stop/resize must not lose them) while the call is made
  static int stopTrickle;
  stopTrickle = 0;
  std::thread trickle;
  if (load == 3) {
    int gapNs = 100 * range(2, 40);
    trickle = std::thread([gapNs]() {
      for (int i = 0; i < 400 && !stopTrickle; ++i) {
        g->pool->schedule(mk(A_SCHED));
        sim_sleep_ns((uint64_t)gapNs);
      }
    });
    sim_sleep_ns((uint64_t)range(200, 20000));
    if (call == 0) { // nobody may submit to a pool that is being destroyed
      stopTrickle = 1;
      trickle.join();
      sim_work(range(0, 60));
    }
  }
  uint64_t idleBefore = sim_stat_idle_futex_timeouts();
  const char* callName = call == 0 ? "~ThreadPool" : (call == 1 ? "resize" : "setSignalingWake");
  ctx.phase = callName;
  int expectThreads = 0;
  if (call == 0) {
    delete ctx.pool;
    ctx.pool = nullptr;
  } else if (call == 1) {
    int ns = range(0, 8);
    pool.resize(ns);
    expectThreads = ns;
  } else {
    bool enable = poll ? true : false;
    pool.setSignalingWake(enable, std::chrono::microseconds(enable ? 100000 : 200));
    expectThreads = nThreads;
  }
  uint64_t idleAfter = sim_stat_idle_futex_timeouts();
  if (trickle.joinable()) {
    stopTrickle = 1;
    trickle.join();
  }
  if (!poll && idleAfter != idleBefore) {
    char cls[128];
    snprintf(cls, sizeof cls, "backstop-needed:%s:load%d", callName, load);
    sim_fail(cls, "%s (wake mode, %d threads) could only finish after %llu worker wait timeout(s) expired with nothing else runnable",
             callName, nThreads, (unsigned long long)(idleAfter - idleBefore));
  }
  // Poll mode: picking up *tasks* legitimately waits for the poll period, but stopping the workers does
  // not (stop/resize/mode switch wake every parked worker); judged on an idle pool only.
  if (poll && load == 0 && idleAfter != idleBefore) {
    char cls[128];
    snprintf(cls, sizeof cls, "backstop-needed:%s:poll-mode:idle", callName);
    sim_fail(cls, "%s (poll mode, period %s, %d idle threads) could only finish after %llu worker sleep period(s) expired",
             callName, longPoll ? "2 s" : "200 us", nThreads, (unsigned long long)(idleAfter - idleBefore));
  }
  int live = sim_count_threads() - threadsBefore;
  if (live != expectThreads) {
    char cls[128];
    snprintf(cls, sizeof cls, "old-workers-still-running:%s", callName);
    sim_fail(cls, "after %s: %d simulated worker threads alive, expected %d", callName, live, expectThreads);
  }
  ctx.phase = "cleanup";
  if (ctx.pool)
    delete ctx.pool;
  checkAllOnce("after ~ThreadPool");
}

// -------------------------------------------------------------------------------------------
// C07: one submission into a fully parked pool starts without the sleep backstop
// -------------------------------------------------------------------------------------------
enum Path { P_SCHED = 0, P_SCHED_FQ, P_BULK, P_TS_SCHED, P_TS_BULK, P_CTS_H_SCHED, P_CTS_L_SCHED, P_CTS_H_BULK, P_CTS_L_BULK,
            P_PARFOR_STATIC, P_PARFOR_AUTO, P_NPATHS };
static const char* pathName(int p) {
  static const char* n[] = {"schedule", "schedule-fq", "scheduleBulk", "TaskSet-schedule", "TaskSet-scheduleBulk",
                            "CTS-heavy-schedule", "CTS-light-schedule", "CTS-heavy-scheduleBulk", "CTS-light-scheduleBulk",
                            "parallel_for-static-nowait", "parallel_for-auto-nowait"};
  return n[p];
}

struct WakeRun {
  int started = 0;
  int expected = 0;
  SimLatch* latch = nullptr;
};
static WakeRun* gw;

struct WakeBody {
  int tag;
  void operator()() {
    TagInfo& t = hx::tag(tag);
    if (t.starts >= 1)
      sim_fail("dup", "task %d ran twice", tag);
    tagStart(tag);
    gw->started++;
    gw->latch->countDown();
    sim_work(1);
    tagFinish(tag);
  }
};

static void wlIdleWake() {
  Ctx ctx;
  g = &ctx;
  tagsReset();
  WakeRun wr;
  gw = &wr;
  int nThreads = range(1, 8);
  int path = (int)pick(P_NPATHS);
  int n = 1;
  bool bulkish = path == P_BULK || path == P_TS_BULK || path == P_CTS_H_BULK || path == P_CTS_L_BULK ||
      path == P_PARFOR_STATIC || path == P_PARFOR_AUTO;
  if (bulkish)
    n = range(1, 2 * nThreads + 2);
  sim_note("threads", nThreads);
  sim_note("path", path);
  sim_note("n", n);
  auto poolOwner = hx::heapNew<dispenso::ThreadPool>((size_t)nThreads); // heap: store-buffer fault
  dispenso::ThreadPool& pool = *poolOwner;
  ctx.pool = &pool;
  // wait until every worker is parked in its (timed) futex wait
  sim_faults_enable(0);
  for (int i = 0; i < 1000000 && sim_count_blocked_timed_futex() < nThreads; ++i)
    sim_sleep_ns(2000);
  if (sim_count_blocked_timed_futex() < nThreads)
    sim_fail("setup:workers-never-parked", "only %d of %d workers parked", sim_count_blocked_timed_futex(), nThreads);
  sim_faults_enable(1);
  SimLatch latch(1);
  wr.latch = &latch;
  uint64_t idleBefore = sim_stat_idle_futex_timeouts();
  uint64_t t0 = sim_now_ns();
  std::unique_ptr<dispenso::TaskSet> ts;
  std::unique_ptr<dispenso::ConcurrentTaskSet> cts;
  std::vector<WakeBody> bodies;
  auto gen = [&bodies](size_t j) { return bodies[j]; };
  int groupSize = 0;
  switch (path) {
    case P_SCHED:
    case P_SCHED_FQ:
    case P_BULK:
      break;
    case P_TS_SCHED:
    case P_TS_BULK:
    case P_PARFOR_STATIC:
    case P_PARFOR_AUTO:
      ts.reset(new dispenso::TaskSet(pool));
      break;
    default:
      cts.reset(new dispenso::ConcurrentTaskSet(
          pool, (path == P_CTS_H_SCHED || path == P_CTS_H_BULK) ? dispenso::TaskCost::kHeavy : dispenso::TaskCost::kLightweight));
      break;
  }
  (void)groupSize;
  if (path == P_PARFOR_STATIC || path == P_PARFOR_AUTO) {
    // n indices, one chunk each when possible
    int base = tagCount();
    for (int i = 0; i < n; ++i)
      tagNew(path);
    latch.count = 0; // set below once the number of chunks is known: use per-index starts instead
    wr.expected = n;
    latch.count = n;
    dispenso::ParForOptions opts;
    opts.wait = false;
    opts.defaultChunking = path == P_PARFOR_STATIC ? dispenso::ParForChunking::kStatic : dispenso::ParForChunking::kAuto;
    opts.minItemsPerChunk = 1;
    dispenso::parallel_for(
        *ts, 0, n,
        [base, &latch](int i) {
          tagStart(base + i);
          gw->started++;
          latch.countDown();
          sim_work(1);
          tagFinish(base + i);
        },
        opts);
  } else {
    for (int i = 0; i < n; ++i) {
      WakeBody b;
      b.tag = tagNew(path);
      bodies.push_back(b);
    }
    wr.expected = n;
    latch.count = n;
    switch (path) {
      case P_SCHED:
        pool.schedule(bodies[0]);
        break;
      case P_SCHED_FQ:
        pool.schedule(bodies[0], dispenso::ForceQueuingTag());
        break;
      case P_BULK:
        pool.scheduleBulk(bodies.size(), gen);
        break;
      case P_TS_SCHED:
        ts->schedule(bodies[0]);
        break;
      case P_TS_BULK:
        ts->scheduleBulk(bodies.size(), gen);
        break;
      case P_CTS_H_SCHED:
      case P_CTS_L_SCHED:
        cts->schedule(bodies[0]);
        break;
      default:
        cts->scheduleBulk(bodies.size(), gen);
        break;
    }
  }
  // block without helping until every submitted body has started
  latch.wait();
  uint64_t idleAfter = sim_stat_idle_futex_timeouts();
  uint64_t dt = sim_now_ns() - t0;
  if (idleAfter != idleBefore) {
    char cls[160];
    const char* sizeClass = n == 1 ? "single" : (n < nThreads ? "partial" : (n == nThreads ? "full" : "over"));
    snprintf(cls, sizeof cls, "backstop-needed:%s:%s", pathName(path), sizeClass);
    sim_fail(cls,
             "%d task(s) via %s into a parked %d-thread pool: progress needed %llu worker wait-timeout expiry(ies) with "
             "nothing else runnable; simulated latency %.3f ms",
             n, pathName(path), nThreads, (unsigned long long)(idleAfter - idleBefore), 1e-6 * (double)dt);
  }
  if (ts)
    ts->wait();
  if (cts)
    cts->wait();
  ts.reset();
  cts.reset();
}

// Several spaced single submissions into the same pool, each made only after every worker has parked
// again: wake-state bookkeeping that drifts (a sleeper claimed but a different one woken, a counter
// decremented twice) only shows from the second or third submission on.
static void wlIdleWakeRepeat() {
  Ctx ctx;
  g = &ctx;
  tagsReset();
  WakeRun wr;
  gw = &wr;
  int nThreads = range(2, 8);
  static const int paths[] = {P_SCHED, P_SCHED_FQ, P_TS_SCHED, P_CTS_L_SCHED};
  int rounds = range(2, 6);
  bool mixPaths = chance(1, 3);
  int path0 = oneOf(paths);
  sim_note("threads", nThreads);
  sim_note("rounds", rounds);
  sim_note("path", mixPaths ? -1 : path0);
  auto poolOwner = hx::heapNew<dispenso::ThreadPool>((size_t)nThreads); // heap: store-buffer fault
  dispenso::ThreadPool& pool = *poolOwner;
  ctx.pool = &pool;
  dispenso::TaskSet ts(pool);
  dispenso::ConcurrentTaskSet cts(pool, dispenso::TaskCost::kLightweight);
  // optional pre-history: the pool is resized while another thread trickles tasks into it (legal); whatever
  // idle/sleep bookkeeping the resize touches must be exact afterwards, or later small submissions go unwoken
  bool history = chance(1, 2);
  sim_note("history", history);
  if (history) {
    static int stopTrickle;
    stopTrickle = 0;
    std::thread trickle([&pool]() {
      for (int i = 0; i < 200 && !stopTrickle; ++i) {
        pool.schedule(mk(A_SCHED));
        sim_sleep_ns((uint64_t)(100 * (1 + (sim_step() % 7))));
      }
    });
    int nr = range(1, 3);
    for (int k = 0; k < nr; ++k) {
      sim_sleep_ns((uint64_t)range(100, 4000));
      pool.resize(k == nr - 1 ? nThreads : range(1, 8));
    }
    stopTrickle = 1;
    trickle.join();
  }
  for (int r = 0; r < rounds; ++r) {
    int path = mixPaths ? oneOf(paths) : path0;
    int bulkN = 0;
    if (history && chance(1, 2)) {
      path = P_BULK; // small bulks are the submissions that consult the idle counters
      bulkN = range(1, std::max(1, nThreads - 1));
    }
    sim_faults_enable(0);
    for (int i = 0; i < 1000000 && sim_count_blocked_timed_futex() < nThreads; ++i)
      sim_sleep_ns(2000);
    if (sim_count_blocked_timed_futex() < nThreads)
      sim_fail("setup:workers-never-parked", "round %d: only %d of %d workers parked", r, sim_count_blocked_timed_futex(), nThreads);
    sim_faults_enable(1);
    SimLatch latch(bulkN ? bulkN : 1);
    wr.latch = &latch;
    WakeBody b;
    b.tag = tagNew(path);
    std::vector<WakeBody> bulk;
    for (int k = 1; k < bulkN; ++k) {
      WakeBody x;
      x.tag = tagNew(path);
      bulk.push_back(x);
    }
    uint64_t idleBefore = sim_stat_idle_futex_timeouts();
    uint64_t t0 = sim_now_ns();
    switch (path) {
      case P_BULK: {
        bulk.push_back(b);
        pool.scheduleBulk(bulk.size(), [&bulk](size_t j) { return bulk[j]; });
        break;
      }
      case P_SCHED:
        pool.schedule(b);
        break;
      case P_SCHED_FQ:
        pool.schedule(b, dispenso::ForceQueuingTag());
        break;
      case P_TS_SCHED:
        ts.schedule(b);
        break;
      default:
        cts.schedule(b);
        break;
    }
    latch.wait();
    uint64_t idleAfter = sim_stat_idle_futex_timeouts();
    if (idleAfter != idleBefore) {
      char cls[160];
      snprintf(cls, sizeof cls, "backstop-needed:%s:%s:%s%s", pathName(path), bulkN > 1 ? "partial" : "single",
               r == 0 ? "first-submission" : "later-submission", history ? ":after-resize-history" : "");
      sim_fail(cls,
               "submission %d of %d (one task via %s) into a fully parked %d-thread pool needed %llu worker wait-timeout "
               "expiry(ies) with nothing else runnable; simulated latency %.3f ms",
               r + 1, rounds, pathName(path), nThreads, (unsigned long long)(idleAfter - idleBefore),
               1e-6 * (double)(sim_now_ns() - t0));
    }
    wr.latch = nullptr;
    // the body finishes on its own; the sets are waited at the end
    for (int i = 0; i < 100000 && hx::tag(b.tag).finishes == 0; ++i)
      sim_sleep_ns(2000);
    for (auto& x : bulk)
      for (int i = 0; i < 100000 && hx::tag(x.tag).finishes == 0; ++i)
        sim_sleep_ns(2000);
  }
  ts.wait();
  cts.wait();
}

} // namespace

HX_WORKLOAD("C03", "resize", wlResize, SF_ALL | SF_TSO, 6000000, 6000000, 1);
HX_WORKLOAD("C08", "accounting", wlAccounting, SF_ALL | SF_TSO, 6000000, 6000000, 1);
HX_WORKLOAD("C09", "shutdown", wlShutdown, (SF_DELAY_ONLY & ~SF_BIT(SF_LATE_TIMER)) | SF_TSO, 6000000, 6000000, 1);
// spurious wakes would rescue a missed wake, late timers would only postpone the backstop: both off
HX_WORKLOAD("C07", "idle-wake", wlIdleWake, SF_BIT(SF_WAKE_CHOICE) | SF_BIT(SF_STALL) | SF_BIT(SF_YIELD_NOOP) | SF_TSO, 6000000, 6000000, 2);
HX_WORKLOAD("C07", "idle-wake-repeat", wlIdleWakeRepeat, SF_BIT(SF_WAKE_CHOICE) | SF_BIT(SF_STALL) | SF_BIT(SF_YIELD_NOOP) | SF_TSO, 8000000, 8000000, 1);
