// hx — harness helpers shared by every workload family.
#pragma once
#include <stdint.h>
#include <stdio.h>
#include <string.h>

#include <stdlib.h>

#include <memory>
#include <new>
#include <string>
#include <vector>

#include "../simrt/simrt.h"

namespace hx {

// ---- workload registry ---------------------------------------------------------------------
struct Workload {
  const char* prop;   // "C21"
  const char* name;   // "latch"
  void (*fn)();       // runs between sim_begin and sim_end on simulated thread 0
  uint32_t fault_mask;
  uint64_t explore_steps;
  uint64_t tail_steps;
  int weight;         // relative share of seeds within the property
  int min_tier;       // 0 quick+thorough, 1 thorough only
};
void registerWorkload(const Workload& w);
struct Reg {
  Reg(const Workload& w) {
    registerWorkload(w);
  }
};
#define HX_CAT2(a, b) a##b
#define HX_CAT(a, b) HX_CAT2(a, b)
#define HX_WORKLOAD(prop, name, fn, mask, explore, tail, weight)                                      \
  static ::hx::Reg HX_CAT(hx_reg_, __LINE__)(::hx::Workload{prop, name, fn, (uint32_t)(mask),         \
                                                            (uint64_t)(explore), (uint64_t)(tail), weight, 0})
#define HX_WORKLOAD_THOROUGH(prop, name, fn, mask, explore, tail, weight)                             \
  static ::hx::Reg HX_CAT(hx_reg_, __LINE__)(::hx::Workload{prop, name, fn, (uint32_t)(mask),         \
                                                            (uint64_t)(explore), (uint64_t)(tail), weight, 1})

// ---- small conveniences over the plan stream --------------------------------------------------
inline uint32_t pick(uint32_t n) {
  return sim_plan(n);
}
// value in [lo, hi], 0-choice = lo
inline int range(int lo, int hi) {
  return lo + (int)sim_plan((uint32_t)(hi - lo + 1));
}
inline bool chance(uint32_t num, uint32_t den) {
  return sim_plan_chance(num, den) != 0;
}
template <typename T, size_t N>
inline T oneOf(const T (&a)[N]) {
  return a[sim_plan((uint32_t)N)];
}

// ---- tags: exactly-once bookkeeping -------------------------------------------------------------
// All state lives in oracle.cpp (uninstrumented).  A tag is one unit of user work (a functor, a
// body invocation, an item at a stage).
struct TagInfo {
  int api;               // workload-defined code of the submission path
  int starts;
  int finishes;
  int start_tid;
  uint64_t submit_step;  // step at which the submitting call was invoked
  uint64_t start_step;
  uint64_t finish_step;
  uint64_t start_last_load_step; // executing thread's last atomic load before the body started
  int64_t aux;
};
// (RACE mode, C10: tagNew declares a write of the task's input by the submitter, tagStart a read of
// it by the executing thread, tagFinish a write of the task's output and tagObserve a read of it by
// whoever relies on the task being finished: after wait(), get(), join or a destructor.)
int tagNew(int api, int64_t aux = 0);
int tagCount();
TagInfo& tag(int id);
void tagStart(int id);   // records start (tid, step, last-load step)
void tagFinish(int id);
void tagObserve(int id); // the caller relies on the effects of a finished body being visible
void tagsReset();

// nesting depth of harness bodies on the current thread (C46)
int depthEnter();
void depthLeave();
int depthMax();

// concurrency gauges (C28, C48): returns value after increment
struct Gauge {
  int cur = 0;
  int max = 0;
  void enter() {
    if (++cur > max)
      max = cur;
  }
  void leave() {
    --cur;
  }
};

// harness latch that blocks in the simulator, never in dispenso
struct SimLatch {
  int count;
  explicit SimLatch(int c = 1) : count(c) {}
  void countDown() {
    sim_race_release(this); // a latch orders what precedes countDown() before what follows wait()
    if (--count <= 0)
      sim_event_wake_all(this);
  }
  void wait() {
    while (count > 0)
      sim_event_wait(this);
    sim_race_acquire(this);
  }
};

// ---- declared accesses for the data-race check (C10) ------------------------------------------------
// Harness payload objects tell the race detector when they are written and read; the library has to
// provide the happens-before between a write and a conflicting access on another thread wherever its
// contract says the hand-off is safe.  One byte at the object's address stands for the object.
inline void raceW(const void* p, const char* label = "payload") {
  sim_race_access(p, 1, 1, label);
}
inline void raceR(const void* p, const char* label = "payload") {
  sim_race_access(p, 1, 0, label);
}

// A "this work has finished" flag of an oracle that doubles as the work's output for the race check:
// setting it declares a write, observing it set declares a read (observing it clear declares nothing:
// then the oracle is about to complain anyway, or nothing was promised yet).
struct DoneFlag {
  bool v = false;
  char cell = 0;
  const char* label = "work-output";
  DoneFlag() {}
  DoneFlag(const DoneFlag&) = default;
  DoneFlag& operator=(const DoneFlag&) = default;
  DoneFlag& operator=(bool b) {
    if (b)
      raceW(&cell, label);
    v = b;
    return *this;
  }
  operator bool() const {
    if (v)
      raceR(&cell, label);
    return v;
  }
};

// Heap allocation that honours over-alignment (C++14 `new` does not: dispenso's lock and ring types are
// alignas(64)).  Objects under test live on the heap in workloads that enable the store-buffer fault.
template <typename T>
struct HeapDel {
  void operator()(T* p) const {
    p->~T();
    free(p);
  }
};
template <typename T, typename... A>
std::unique_ptr<T, HeapDel<T>> heapNew(A&&... a) {
  void* m = nullptr;
  size_t al = alignof(T) < sizeof(void*) ? sizeof(void*) : alignof(T);
  if (posix_memalign(&m, al, sizeof(T)) != 0)
    abort();
  return std::unique_ptr<T, HeapDel<T>>(::new (m) T(static_cast<A&&>(a)...));
}

// Objects that must outlive the workload function (detached work may still touch them) are
// allocated here and stay reachable from a global list, so a leak checker does not blame them.
void keepAlive(void* p);
template <typename T, typename... A>
T& immortal(A&&... a) {
  T* p = new T(static_cast<A&&>(a)...);
  keepAlive(p);
  return *p;
}
} // namespace hx
