// Workload family `race` (C10): self-tests of the happens-before race detector.  The library-facing
// race checks are the ordinary workloads of every other family run in RACE mode (payload objects
// declare their accesses through hx::raceR / hx::raceW); these small programs only pin down what the
// detector must and must not report.  Registered under the pseudo property "SELFTEST".
#include <atomic>
#include <mutex>
#include <thread>

#include "hx.h"

using namespace hx;

namespace {

struct Box {
  int payload = 0;
  std::atomic<int> flag{0};
  std::atomic<int> other{0};
  std::mutex mu;
};

// publisher/consumer through one atomic flag; `how` selects the orders used
static void handoff(int how) {
  Box& b = immortal<Box>();
  std::thread prod([&b, how]() {
    sim_race_access(&b.payload, sizeof b.payload, 1, "selftest-payload");
    b.payload = 42;
    switch (how) {
      case 0: // release store
        b.flag.store(1, std::memory_order_release);
        break;
      case 1: // relaxed store: no edge
        b.flag.store(1, std::memory_order_relaxed);
        break;
      case 2: // release fence + relaxed store
        std::atomic_thread_fence(std::memory_order_release);
        b.flag.store(1, std::memory_order_relaxed);
        break;
      case 3: // release RMW
        b.flag.fetch_add(1, std::memory_order_acq_rel);
        break;
      case 4: // release store, then a relaxed RMW by the same thread continues the release sequence
        b.flag.store(1, std::memory_order_release);
        b.flag.fetch_add(1, std::memory_order_relaxed);
        break;
      default: // mutex
        b.mu.lock();
        b.flag.store(1, std::memory_order_relaxed);
        b.mu.unlock();
        break;
    }
  });
  std::thread cons([&b, how]() {
    for (;;) {
      int v;
      if (how == 5) {
        b.mu.lock();
        v = b.flag.load(std::memory_order_relaxed);
        b.mu.unlock();
      } else if (how == 2 || how == 6) {
        v = b.flag.load(std::memory_order_relaxed);
        if (v)
          std::atomic_thread_fence(std::memory_order_acquire);
      } else if (how == 7) {
        v = b.flag.load(std::memory_order_relaxed); // relaxed load of a release store: no edge
      } else {
        v = b.flag.load(std::memory_order_acquire);
      }
      if (v)
        break;
      std::this_thread::yield();
    }
    sim_race_access(&b.payload, sizeof b.payload, 0, "selftest-payload");
    (void)b.payload;
  });
  prod.join();
  cons.join();
}

static void wlOrdered() {
  static const int ok[] = {0, 2, 3, 4, 5};
  int how = oneOf(ok);
  sim_note("how", how);
  handoff(how);
}
static void wlUnordered() {
  // 1: relaxed store/acquire load; 6: release store... no: relaxed store + acquire fence; 7: release
  // store + relaxed load.  Each must be reported.
  static const int bad[] = {1, 7};
  int how = oneOf(bad);
  sim_note("how", how);
  handoff(how);
}

} // namespace

HX_WORKLOAD("SELFTEST", "race-ordered", wlOrdered, SF_ALL, 400000, 400000, 1);
HX_WORKLOAD("SELFTEST", "race-unordered", wlUnordered, SF_ALL, 400000, 400000, 1);
