// Workload family `pipe`: pipeline (C27 exactly-once delivery, C28 stage limits, C29 exceptions).
#include <dispenso/pipeline.h>

#include <memory>
#include <thread>
#include <vector>

#include "hx.h"

using namespace hx;

namespace {

static int g_live; // live Item payloads (copy/move constructed minus destroyed)

struct Item {
  int id = -1;
  int lastStage = 0; // index of the last stage that handled it (generator = 0)
  int canary = 0x17E5;
  Item() {
    raceW(this, "pipeline-item");
    g_live++;
  }
  explicit Item(int i) : id(i) {
    raceW(this, "pipeline-item");
    g_live++;
  }
  Item(const Item& o) : id(o.id), lastStage(o.lastStage), canary(o.canary) {
    raceR(&o, "pipeline-item");
    raceW(this, "pipeline-item");
    g_live++;
  }
  Item(Item&& o) noexcept : id(o.id), lastStage(o.lastStage), canary(o.canary) {
    raceW(&o, "pipeline-item");
    raceW(this, "pipeline-item");
    g_live++;
  }
  Item& operator=(const Item& o) {
    raceR(&o, "pipeline-item");
    raceW(this, "pipeline-item");
    id = o.id;
    lastStage = o.lastStage;
    canary = o.canary;
    return *this;
  }
  Item& operator=(Item&& o) noexcept {
    raceW(&o, "pipeline-item");
    raceW(this, "pipeline-item");
    id = o.id;
    lastStage = o.lastStage;
    canary = o.canary;
    return *this;
  }
  ~Item() {
    raceW(this, "pipeline-item");
    canary = 0xDEAD;
    g_live--;
  }
};

struct Boom {
  int tag;
};

static const int kMaxStages = 6;
static const int kMaxItems = 64;

struct PRun {
  int focus = 27;
  int nItems = 0;
  int nStages = 0;              // including generator (0) and sink (nStages-1)
  long limit[kMaxStages];       // per stage
  bool filtering[kMaxStages];
  int seen[kMaxStages][kMaxItems];
  Gauge gauge[kMaxStages];
  int nextId = 0;               // generator cursor
  int generated = 0;
  int throwStage = -1;          // C29: stage whose body throws
  int throwItem = -1;           //      on this item id
  bool thrown = false;
  int thrownTag = -1;
  int generatorCallsAfterThrow = 0;
  bool anyFailure = false;
  int work[kMaxStages];         // planned extra body length per stage (simulation points)
  char serialCell[kMaxStages];  // C10: unsynchronised state of a serial (limit 1) stage
  bool pipelineReturned = false; // pipeline() has returned or thrown: nothing of it may still be running
};
static PRun* gp;

static void fail27(const char* what, int stage, int id) {
  char cls[160];
  long lim = gp->limit[stage];
  snprintf(cls, sizeof cls, "%s:stage%s:limit%s", what, stage == 0 ? "-generator" : (stage == gp->nStages - 1 ? "-sink" : "-transform"),
           lim == 1 ? "1" : (lim > 1000 ? "-none" : "N"));
  sim_fail(cls, "%s at stage %d (limit %ld) item %d; %d items, %d stages", what, stage, lim, id, gp->nItems, gp->nStages);
}

static void enterStage(int stage, Item& it) {
  PRun& r = *gp;
  if (r.pipelineReturned) {
    // the stage objects live in pipeline()'s frame: an invocation that is still running (or starts) now
    // works on destroyed queues.  Reported here, before it crashes there.
    char cls[128];
    snprintf(cls, sizeof cls, "%s:stage-invocation-after-pipeline-returned", r.thrown ? "exception" : "delivery");
    sim_fail(cls, "stage %d was invoked (item %d) after pipeline() had %s", stage, it.id, r.thrown ? "thrown" : "returned");
  }
  r.gauge[stage].enter();
  if (r.focus == 28 && r.limit[stage] < 1000 && r.gauge[stage].cur > r.limit[stage]) {
    char cls[128];
    snprintf(cls, sizeof cls, "limit-exceeded:%s:limit%s", stage == 0 ? "generator" : (stage == r.nStages - 1 ? "sink" : "transform"),
             r.limit[stage] == 1 ? "1" : "N");
    sim_fail(cls, "stage %d has %d concurrent invocations, limit %ld", stage, r.gauge[stage].cur, r.limit[stage]);
  }
  if (stage > 0) {
    if (it.id < 0 || it.id >= kMaxItems || it.canary != 0x17E5)
      fail27("garbage-item", stage, it.id);
    if (r.seen[stage][it.id]++ > 0)
      fail27("item-at-stage-twice", stage, it.id);
    if (it.lastStage != stage - 1)
      fail27("wrong-predecessor-output", stage, it.id);
    it.lastStage = stage;
  }
  sim_event(8, stage, it.id);
  raceW(&it, "pipeline-item");
  if (r.limit[stage] == 1)
    raceW(&r.serialCell[stage], "serial-stage-state");
  sim_work(1 + (int)(sim_step() % 3) + r.work[stage]);
  if (stage == r.throwStage && it.id == r.throwItem) {
    r.thrown = true;
    r.thrownTag = 1000 + it.id;
    r.gauge[stage].leave();
    throw Boom{1000 + it.id};
  }
}
static void leaveStage(int stage) {
  gp->gauge[stage].leave();
}

static bool filteredOut(int stage, int id) {
  return gp->filtering[stage] && ((id * 7 + stage) % 3 == 0);
}

struct Gen {
  dispenso::OpResult<Item> operator()() {
    PRun& r = *gp;
    if (r.thrown)
      r.generatorCallsAfterThrow++;
    r.gauge[0].enter();
    if (r.focus == 28 && r.limit[0] < 1000 && r.gauge[0].cur > r.limit[0]) {
      sim_fail(r.limit[0] == 1 ? "limit-exceeded:generator:limit1" : "limit-exceeded:generator:limitN",
               "generator has %d concurrent instances, limit %ld", r.gauge[0].cur, r.limit[0]);
    }
    // claim the next id (plain int: atomic between simulation points)
    int id = r.nextId < r.nItems ? r.nextId++ : -1;
    if (r.limit[0] == 1)
      raceW(&r.serialCell[0], "serial-stage-state");
    sim_work(1);
    if (id >= 0 && 0 == r.throwStage && id == r.throwItem) {
      r.thrown = true;
      r.thrownTag = 1000 + id;
      r.gauge[0].leave();
      throw Boom{1000 + id};
    }
    r.gauge[0].leave();
    if (id < 0)
      return {};
    r.seen[0][id]++;
    r.generated++;
    return Item(id);
  }
};
template <int kStage>
struct Plain {
  Item operator()(Item in) {
    enterStage(kStage, in);
    leaveStage(kStage);
    return in;
  }
};
template <int kStage>
struct Filter {
  dispenso::OpResult<Item> operator()(Item in) {
    enterStage(kStage, in);
    bool drop = filteredOut(kStage, in.id);
    leaveStage(kStage);
    if (drop)
      return {};
    return in;
  }
};
template <int kStage>
struct Sink {
  void operator()(Item in) {
    enterStage(kStage, in);
    leaveStage(kStage);
  }
};

static long planLimit() {
  switch (pick(5)) {
    case 0:
      return 1;
    case 1:
      return 2;
    case 2:
      return 3;
    case 3:
      return 4;
    default:
      return (long)dispenso::kStageNoLimit;
  }
}

static void runShape(dispenso::ThreadPool& pool, int shape) {
  PRun& r = *gp;
  using dispenso::stage;
  auto L = [&r](int s) { return (ssize_t)r.limit[s]; };
  switch (shape) {
    case 0:
      r.nStages = 2;
      dispenso::pipeline(pool, stage(Gen(), L(0)), stage(Sink<1>(), L(1)));
      break;
    case 1:
      r.nStages = 3;
      dispenso::pipeline(pool, stage(Gen(), L(0)), stage(Plain<1>(), L(1)), stage(Sink<2>(), L(2)));
      break;
    case 2:
      r.nStages = 3;
      r.filtering[1] = true;
      dispenso::pipeline(pool, stage(Gen(), L(0)), stage(Filter<1>(), L(1)), stage(Sink<2>(), L(2)));
      break;
    case 3:
      r.nStages = 4;
      r.filtering[2] = true;
      dispenso::pipeline(pool, stage(Gen(), L(0)), stage(Plain<1>(), L(1)), stage(Filter<2>(), L(2)), stage(Sink<3>(), L(3)));
      break;
    case 4:
      r.nStages = 4;
      r.filtering[1] = true;
      dispenso::pipeline(pool, stage(Gen(), L(0)), stage(Filter<1>(), L(1)), stage(Plain<2>(), L(2)), stage(Sink<3>(), L(3)));
      break;
    case 5:
      r.nStages = 5;
      dispenso::pipeline(pool, stage(Gen(), L(0)), stage(Plain<1>(), L(1)), stage(Plain<2>(), L(2)), stage(Plain<3>(), L(3)),
                         stage(Sink<4>(), L(4)));
      break;
    case 6:
      r.nStages = 5;
      r.filtering[1] = r.filtering[3] = true;
      dispenso::pipeline(pool, stage(Gen(), L(0)), stage(Filter<1>(), L(1)), stage(Plain<2>(), L(2)), stage(Filter<3>(), L(3)),
                         stage(Sink<4>(), L(4)));
      break;
    default:
      // plain functions: every stage is serial (limit 1)
      r.nStages = 3;
      r.limit[0] = r.limit[1] = r.limit[2] = 1;
      dispenso::pipeline(pool, Gen(), Plain<1>(), Sink<2>());
      break;
  }
}

static void planStages(int shape) {
  PRun& r = *gp;
  static const int stagesOf[] = {2, 3, 3, 4, 4, 5, 5, 3};
  r.nStages = stagesOf[shape];
  for (int s = 0; s < kMaxStages; ++s) {
    r.limit[s] = planLimit();
    r.filtering[s] = false;
  }
}

static void checkDelivery() {
  PRun& r = *gp;
  // every generated item passes each stage exactly once until it is filtered out
  for (int id = 0; id < r.nItems; ++id) {
    if (r.seen[0][id] != 1)
      fail27(r.seen[0][id] ? "item-generated-twice" : "item-never-generated", 0, id);
    bool alive = true;
    for (int s = 1; s < r.nStages; ++s) {
      int want = alive ? 1 : 0;
      if (r.seen[s][id] != want)
        fail27(r.seen[s][id] > want ? "item-at-stage-twice" : "item-lost-before-stage", s, id);
      if (alive && filteredOut(s, id))
        alive = false;
    }
  }
  for (int s = 0; s < r.nStages; ++s)
    if (r.gauge[s].cur != 0)
      fail27("invocation-still-running-after-return", s, -1);
}

static void pipeHangKey(char* buf, size_t n) {
  PRun& r = *gp;
  if (r.thrown)
    snprintf(buf, n, "after-throw-at-%s", r.throwStage == 0 ? "generator" : (r.throwStage == r.nStages - 1 ? "sink" : "transform"));
  else
    snprintf(buf, n, "no-exception");
}

static void pipeProgram(int focus, bool handoff = false, bool saturate = false) {
  PRun r;
  memset(&r, 0, sizeof r);
  new (&r) PRun();
  gp = &r;
  sim_set_hang_keyer(pipeHangKey);
  r.focus = focus;
  g_live = 0;
  int nThreads = range(0, 4);
  int shape = (int)pick(8);
  r.nItems = chance(1, 4) ? range(0, 3) : range(0, 40);
  planStages(shape);
  for (int s = 0; s < r.nStages; ++s)
    r.work[s] = chance(1, 3) ? range(0, 40) : 0;
  if (handoff) {
    // biased towards the stage hand-off protocol: few items, a slow unlimited transform in front of a
    // narrow stage, so that the caller is already inside the stage-wait chain when the last items are
    // handed from one stage's completion callback to the next stage's local queue
    nThreads = range(2, 4);
    static const int shapes[] = {1, 5, 3};
    shape = oneOf(shapes);
    planStages(shape);
    r.nItems = range(2, 5);
    int u = range(1, r.nStages - 2); // the unlimited stage
    for (int s = 0; s < r.nStages; ++s) {
      r.limit[s] = s == u ? (long)dispenso::kStageNoLimit : (chance(2, 3) ? 1 : 2);
      r.work[s] = s == u ? range(0, 80) : range(0, 4);
    }
  }
  if (saturate) {
    // one slow stage whose limit equals (or just exceeds) the number of pool threads, fed faster than it
    // drains: every pool thread is inside it when the calling thread, helping in pipeline()'s wait, looks
    // for more work.  A limit is a limit on invocations, whoever runs them.
    nThreads = range(1, 3);
    static const int shapes[] = {1, 3, 5};
    shape = oneOf(shapes);
    planStages(shape);
    r.nItems = range(6, 30);
    int k = range(1, r.nStages - 1);
    for (int s = 0; s < r.nStages; ++s) {
      if (s == k) {
        r.limit[s] = nThreads + (chance(1, 3) ? 1 : 0);
        r.work[s] = range(15, 80);
      } else {
        r.limit[s] = s == 0 ? 1 : (chance(1, 2) ? (long)dispenso::kStageNoLimit : 4);
        r.work[s] = range(0, 2);
      }
    }
  }
  sim_note("pool", nThreads);
  sim_note("shape", shape);
  sim_note("items", r.nItems);
  for (int s = 0; s < r.nStages; ++s)
    sim_note("lim", r.limit[s] > 1000 ? 0 : r.limit[s]);
  if (focus == 29) {
    r.throwStage = (int)pick((uint32_t)r.nStages);
    if (r.nItems == 0)
      r.nItems = 1;
    static const int where[] = {0, 1, 2}; // first / middle / last
    int w = oneOf(where);
    r.throwItem = w == 0 ? 0 : (w == 1 ? r.nItems / 2 : r.nItems - 1);
    sim_note("throwstage", r.throwStage);
    sim_note("throwitem", r.throwItem);
  }
  dispenso::ThreadPool pool((size_t)nThreads, (size_t)(chance(1, 3) ? 1 : 32));
  if (focus == 29) {
    bool caught = false;
    try {
      runShape(pool, shape);
      r.pipelineReturned = true;
    } catch (Boom& b) {
      r.pipelineReturned = true;
      caught = true;
      if (!r.thrown || b.tag != r.thrownTag)
        sim_fail("exception:wrong-exception-rethrown", "pipeline() threw tag %d, the stage threw %d", b.tag, r.thrownTag);
    }
    // the throwing item may have been filtered out upstream: then nothing is thrown
    if (r.thrown && !caught)
      sim_fail("exception:not-rethrown", "a stage threw (tag %d) but pipeline() returned normally", r.thrownTag);
    for (int s = 1; s < r.nStages; ++s)
      for (int id = 0; id < r.nItems; ++id)
        if (r.seen[s][id] > 1)
          fail27("item-at-stage-twice", s, id);
    for (int s = 0; s < r.nStages; ++s)
      if (r.gauge[s].cur != 0)
        fail27("invocation-still-running-after-return", s, -1);
    // ("the generator stops producing once the exception is observed": the instant at which the
    // library observes the exception — the capture after unwinding — is not visible from outside, and
    // a thrower stalled between `throw` and the capture legitimately lets the generator run on; a
    // count-based bound here raised a false alarm (removed).  What is checked instead: pipeline()
    // terminates, i.e. the generator did stop, and the number of calls is recorded as a statistic.)
    sim_note("gen_calls_after_throw", r.generatorCallsAfterThrow);
    if (g_live != 0) {
      char cls[128];
      snprintf(cls, sizeof cls, "exception:items-leaked:throw-at-%s", r.throwStage == 0 ? "generator" : (r.throwStage == r.nStages - 1 ? "sink" : "transform"));
      sim_fail(cls, "%d item payloads still alive after pipeline() threw (stage %d, item %d of %d)", g_live, r.throwStage,
               r.throwItem, r.nItems);
    }
    // the pool must stay usable
    PRun r2;
    memset(&r2, 0, sizeof r2);
    new (&r2) PRun();
    gp = &r2;
    r2.focus = 27;
    r2.nItems = 5;
    for (int s = 0; s < kMaxStages; ++s)
      r2.limit[s] = 2;
    runShape(pool, 1);
    checkDelivery();
    gp = &r;
  } else {
    runShape(pool, shape);
    r.pipelineReturned = true;
    checkDelivery();
    if (g_live != 0)
      sim_fail("items-leaked", "%d item payloads alive after pipeline() returned", g_live);
  }
}

static void wlPipe27() {
  pipeProgram(27);
}
static void wlPipe27h() {
  pipeProgram(27, true);
}
static void wlPipe28() {
  pipeProgram(28);
}
static void wlPipe28s() {
  pipeProgram(28, false, true);
}
static void wlPipe29() {
  pipeProgram(29);
}

} // namespace

HX_WORKLOAD("C27", "pipeline", wlPipe27, SF_ALL | SF_TSO, 6000000, 6000000, 1);
HX_WORKLOAD("C27", "pipeline-handoff", wlPipe27h, SF_ALL | SF_TSO, 6000000, 6000000, 3);
HX_WORKLOAD("C28", "pipeline-limits", wlPipe28, SF_ALL | SF_TSO, 6000000, 6000000, 1);
HX_WORKLOAD("C28", "pipeline-saturated", wlPipe28s, SF_ALL | SF_TSO, 6000000, 6000000, 3);
HX_WORKLOAD("C29", "pipeline-throw", wlPipe29, SF_ALL, 6000000, 6000000, 1);
