// Workload family `cont`: ConcurrentVector (C33), MpmcRingBuffer (C34), SPSCRingBuffer (C35),
// ChaseLevDeque (C36), ConcurrentObjectArena (C37).
#include <dispenso/chase_lev_deque.h>
#include <dispenso/concurrent_object_arena.h>
#include <dispenso/concurrent_vector.h>
#include <dispenso/mpmc_ring_buffer.h>
#include <dispenso/spsc_ring_buffer.h>

#include <algorithm>
#include <atomic>
#include <memory>
#include <thread>
#include <vector>

#include "hx.h"

using namespace hx;

namespace {

static int g_live;

struct Elem {
  int tag = -1;
  int canary = 0xE1E3;
  Elem() noexcept {
    g_live++;
    raceW(this, "element");
  }
  explicit Elem(int t) noexcept : tag(t) {
    g_live++;
    raceW(this, "element");
  }
  Elem(const Elem& o) noexcept : tag(o.tag), canary(o.canary) {
    g_live++;
    raceR(&o, "element");
    raceW(this, "element");
  }
  Elem(Elem&& o) noexcept : tag(o.tag), canary(o.canary) {
    g_live++;
    raceR(&o, "element");
    raceW(this, "element");
  }
  Elem& operator=(const Elem& o) noexcept {
    raceR(&o, "element");
    raceW(this, "element");
    tag = o.tag;
    canary = o.canary;
    return *this;
  }
  Elem& operator=(Elem&& o) noexcept {
    raceR(&o, "element");
    raceW(this, "element");
    tag = o.tag;
    canary = o.canary;
    return *this;
  }
  ~Elem() {
    canary = 0xDEAD;
    g_live--;
    raceW(this, "element");
  }
};

// ---------------------------------------------------------------------------------------------
// queue history oracle (C34, C35)
// ---------------------------------------------------------------------------------------------
struct QHist {
  static const int kMax = 512;
  uint64_t pushInvoke[kMax], pushReturn[kMax], popInvoke[kMax], popReturn[kMax];
  int pushed[kMax], popped[kMax], producerOf[kMax];
  int pushOkReturned = 0, popOkReturned = 0, popsInFlight = 0;
  size_t capacity = 0;
  const char* name = "";
  QHist() {
    memset(pushInvoke, 0, sizeof pushInvoke);
    memset(pushReturn, 0, sizeof pushReturn);
    memset(popInvoke, 0, sizeof popInvoke);
    memset(popReturn, 0, sizeof popReturn);
    memset(pushed, 0, sizeof pushed);
    memset(popped, 0, sizeof popped);
    memset(producerOf, 0, sizeof producerOf);
  }
  void fail(const char* what, const char* fmt, int a, int b) {
    char cls[128];
    snprintf(cls, sizeof cls, "%s:%s", name, what);
    sim_fail(cls, fmt, a, b);
  }
  void onPushReturn(int tag, bool ok, uint64_t inv, int producer) {
    if (!ok)
      return;
    pushed[tag] = 1;
    pushInvoke[tag] = inv;
    pushReturn[tag] = sim_step();
    producerOf[tag] = producer;
    pushOkReturned++;
    // elements certainly inside = pushes returned - pops returned - pops that may be about to return
    long lower = (long)pushOkReturned - popOkReturned - popsInFlight;
    if (lower > (long)capacity && getenv("HX_DEBUG"))
      fprintf(stderr, "over-capacity: pushOk=%d popOk=%d inflight=%d tag=%d producer=%d step=%llu\n", pushOkReturned, popOkReturned,
              popsInFlight, tag, producer, (unsigned long long)sim_step());
    if (lower > (long)capacity)
      fail("over-capacity", "at least %d elements held, capacity %d", (int)lower, (int)capacity);
  }
  void onPop(const Elem& e, uint64_t inv) {
    int tag = e.tag;
    if (tag < 0 || tag >= kMax || e.canary != 0xE1E3)
      fail("garbage-element", "pop returned garbage (tag %d canary %x)", tag, e.canary);
    // the matching push may not have *returned* yet, but it must have been invoked: producers mark
    // `pushed` at return, so accept tags whose push is in flight (tracked by inFlightPush)
    if (!pushed[tag] && !inFlightPush[tag])
      fail("never-pushed", "pop returned tag %d that nobody pushed (%d)", tag, 0);
    if (popped[tag]++)
      fail("popped-twice", "tag %d popped %d times", tag, popped[tag]);
    popInvoke[tag] = inv;
    popReturn[tag] = sim_step();
    popOkReturned++;
  }
  char inFlightPush[kMax] = {0};
  // real-time order: a pushed strictly before b, b popped strictly before a's pop was even invoked
  void checkOrder(int nTags) {
    for (int a = 0; a < nTags; ++a) {
      if (!pushed[a])
        continue;
      for (int b = 0; b < nTags; ++b) {
        if (a == b || !pushed[b] || !popped[b])
          continue;
        if (pushReturn[a] < pushInvoke[b]) {
          if (!popped[a])
            fail("fifo-overtaken", "tag %d pushed before tag %d, but only the later one was popped in the concurrent phase", a, b);
          if (popReturn[b] < popInvoke[a])
            fail("fifo-inversion", "tag %d pushed strictly before tag %d but popped strictly after it", a, b);
        }
      }
    }
  }
};

template <typename Ring>
static void mpmcRun(const char* name) {
  QHist& h = immortal<QHist>();
  h.name = name;
  g_live = 0;
  {
    auto ringOwner = hx::heapNew<Ring>(); // heap: see the store-buffer fault
    Ring& ring = *ringOwner;
    h.capacity = Ring::capacity();
    int nProd = range(1, 3), nCons = range(1, 3);
    if (nProd + nCons > 4)
      nCons = 4 - nProd;
    int perProducer = range(1, 14);
    sim_note("cap", (int64_t)h.capacity);
    sim_note("prod", nProd);
    sim_note("cons", nCons);
    int totalTags = nProd * perProducer;
    int producersDone = 0;
    std::vector<std::thread> threads;
    for (int p = 0; p < nProd; ++p) {
      threads.emplace_back([&, p]() {
        int next = p * perProducer, end = next + perProducer;
        int attempts = 0;
        while (next < end && attempts < 400) {
          ++attempts;
          uint64_t inv = sim_step();
          switch (sim_step() % 3) {
            case 0: {
              h.inFlightPush[next] = 1;
              bool ok = ring.try_push(Elem(next));
              h.onPushReturn(next, ok, inv, p);
              h.inFlightPush[next] = 0;
              next += ok;
              break;
            }
            case 1: {
              h.inFlightPush[next] = 1;
              bool ok = ring.try_emplace(next);
              h.onPushReturn(next, ok, inv, p);
              h.inFlightPush[next] = 0;
              next += ok;
              break;
            }
            default: {
              Elem batch[4];
              int n = std::min(end - next, 1 + (int)(sim_step() % 4));
              for (int i = 0; i < n; ++i) {
                batch[i].tag = next + i;
                h.inFlightPush[next + i] = 1;
              }
              size_t done = ring.try_push_batch(batch, (size_t)n);
              if (done > (size_t)n)
                h.fail("batch-overreport", "try_push_batch reported %d of %d", (int)done, n);
              for (int i = 0; i < n; ++i) {
                h.onPushReturn(next + i, (size_t)i < done, inv, p);
                h.inFlightPush[next + i] = 0;
              }
              next += (int)done;
              break;
            }
          }
          if (attempts % 3 == 0)
            sim_work(2);
        }
        producersDone++;
      });
    }
    for (int c = 0; c < nCons; ++c) {
      threads.emplace_back([&]() {
        int idle = 0;
        while (idle < 60) {
          uint64_t inv = sim_step();
          h.popsInFlight++;
          bool got = false;
          switch (sim_step() % 3) {
            case 0: {
              Elem e;
              got = ring.try_pop(e);
              h.popsInFlight--;
              if (got)
                h.onPop(e, inv);
              break;
            }
            case 1: {
              // every call into the code under test first (each may be pre-empted in the "fine"
              // variant), then the bookkeeping as one uninterrupted block
              auto r = ring.try_pop();
              got = (bool)r;
              Elem copy = got ? r.value() : Elem();
              h.popsInFlight--;
              if (got)
                h.onPop(copy, inv);
              break;
            }
            default: {
              alignas(Elem) char buf[sizeof(Elem)];
              got = ring.try_pop_into(reinterpret_cast<Elem*>(buf));
              h.popsInFlight--;
              if (got) {
                Elem* e = reinterpret_cast<Elem*>(buf);
                h.onPop(*e, inv);
                e->~Elem();
              }
              break;
            }
          }
          if (got) {
            idle = 0;
          } else {
            ++idle;
            if (producersDone == nProd && idle > 3)
              break;
            sim_work(1);
          }
        }
      });
    }
    for (auto& t : threads)
      t.join();
    h.checkOrder(totalTags);
    // quiescent phase: exact sequential behaviour
    int remaining = h.pushOkReturned - h.popOkReturned;
    if (ring.empty() != (remaining == 0))
      h.fail("quiescent-empty-mismatch", "empty() disagrees with the model (%d elements remain)%d", remaining, 0);
    std::vector<int> order;
    for (int i = 0; i < remaining; ++i) {
      Elem e;
      if (!ring.try_pop(e))
        h.fail("quiescent-pop-fails-nonempty", "quiescent pop failed with %d elements remaining (popped %d)", remaining - i, i);
      uint64_t inv = sim_step();
      h.onPop(e, inv);
      order.push_back(e.tag);
    }
    {
      Elem e;
      if (ring.try_pop(e))
        h.fail("quiescent-pop-succeeds-empty", "quiescent pop succeeded on an empty buffer (tag %d)%d", e.tag, 0);
    }
    // per-producer order among the drained elements
    for (size_t i = 0; i + 1 < order.size(); ++i)
      for (size_t j = i + 1; j < order.size(); ++j)
        if (h.producerOf[order[i]] == h.producerOf[order[j]] && order[i] > order[j])
          h.fail("per-producer-order", "drain returned tag %d before tag %d of the same producer", order[i], order[j]);
    for (int t = 0; t < totalTags; ++t)
      if (h.pushed[t] && h.popped[t] != 1)
        h.fail("lost-element", "tag %d pushed but popped %d times", t, h.popped[t]);
    // fill to capacity: push succeeds iff not full
    for (size_t i = 0; i < h.capacity; ++i)
      if (!ring.try_emplace(400 + (int)i))
        h.fail("quiescent-push-fails-not-full", "push %d of %d failed on a non-full buffer", (int)i, (int)h.capacity);
    if (ring.try_emplace(499))
      h.fail("quiescent-push-succeeds-full", "push succeeded on a full buffer (capacity %d)%d", (int)h.capacity, 0);
  }
  if (g_live != 0)
    h.fail("lifetime-imbalance", "%d elements alive after the buffer was destroyed%d", g_live, 0);
}

static void wlMpmc() {
  switch (pick(8)) {
    case 5:
      mpmcRun<dispenso::MpmcRingBuffer<Elem, 5, false>>("mpmc-cap5-exact");
      break;
    case 6:
      mpmcRun<dispenso::MpmcRingBuffer<Elem, 6, false>>("mpmc-cap6-exact");
      break;
    case 7:
      mpmcRun<dispenso::MpmcRingBuffer<Elem, 2, false>>("mpmc-cap2-exact");
      break;
    case 0:
      mpmcRun<dispenso::MpmcRingBuffer<Elem, 2, true>>("mpmc-cap2");
      break;
    case 1:
      mpmcRun<dispenso::MpmcRingBuffer<Elem, 3, false>>("mpmc-cap3-exact");
      break;
    case 2:
      mpmcRun<dispenso::MpmcRingBuffer<Elem, 3, true>>("mpmc-cap3-pow2");
      break;
    case 3:
      mpmcRun<dispenso::MpmcRingBuffer<Elem, 4, true>>("mpmc-cap4");
      break;
    default:
      mpmcRun<dispenso::MpmcRingBuffer<Elem, 16, true>>("mpmc-cap16");
      break;
  }
}

// ---------------------------------------------------------------------------------------------
// C35 SPSC
// ---------------------------------------------------------------------------------------------
template <typename Ring>
static void spscRun(const char* name) {
  g_live = 0;
  char cls[128];
  {
    Ring ring;
    size_t cap = Ring::capacity();
    int total = range(1, 40);
    sim_note("cap", (int64_t)cap);
    sim_note("n", total);
    int produced = 0;  // successfully pushed (count)
    int consumed = 0;
    bool producerDone = false;
    std::thread prod([&]() {
      int attempts = 0;
      while (produced < total && attempts < 2000) {
        ++attempts;
        int inBuffer = produced - consumed; // consumer only increases consumed: this is an upper bound of occupancy
        if (sim_step() % 3 == 0) {
          std::vector<Elem> batch;
          int n = std::min(total - produced, 1 + (int)(sim_step() % 4));
          for (int i = 0; i < n; ++i)
            batch.emplace_back(produced + i);
          size_t done = ring.try_push_batch(batch.begin(), batch.end());
          if (done > (size_t)n) {
            snprintf(cls, sizeof cls, "%s:batch-overreport", name);
            sim_fail(cls, "try_push_batch reported %zu of %d", done, n);
          }
          if (done == 0 && (size_t)inBuffer < cap) {
            snprintf(cls, sizeof cls, "%s:push-fails-not-full", name);
            sim_fail(cls, "batch push refused although at most %d of %zu slots were occupied", inBuffer, cap);
          }
          produced += (int)done;
        } else {
          bool ok = (sim_step() & 1) ? ring.try_push(Elem(produced)) : ring.try_emplace(produced);
          if (!ok && (size_t)inBuffer < cap) {
            snprintf(cls, sizeof cls, "%s:push-fails-not-full", name);
            sim_fail(cls, "push refused although at most %d of %zu slots were occupied", inBuffer, cap);
          }
          produced += ok;
        }
        if ((size_t)(produced - consumed) > cap + 0 && false)
          sim_fail("unreachable", "x");
        if (attempts % 4 == 0)
          sim_work(2);
      }
      producerDone = true;
    });
    std::thread cons([&]() {
      int idle = 0;
      while (idle < 80) {
        int avail = produced - consumed; // producer only increases produced: lower bound of what is available
        bool got = false;
        int tagv = -1;
        if (sim_step() % 3 == 0) {
          std::vector<Elem> out(3);
          size_t n = ring.try_pop_batch(out.begin(), 3);
          if (n == 0 && avail > 0) {
            snprintf(cls, sizeof cls, "%s:pop-fails-not-empty", name);
            sim_fail(cls, "batch pop failed although at least %d elements were available", avail);
          }
          for (size_t i = 0; i < n; ++i) {
            if (out[i].tag != consumed || out[i].canary != 0xE1E3) {
              snprintf(cls, sizeof cls, "%s:fifo-order", name);
              sim_fail(cls, "popped tag %d, expected %d", out[i].tag, consumed);
            }
            consumed++;
          }
          got = n > 0;
        } else {
          Elem e;
          got = ring.try_pop(e);
          tagv = e.tag;
          if (!got && avail > 0) {
            snprintf(cls, sizeof cls, "%s:pop-fails-not-empty", name);
            sim_fail(cls, "pop failed although at least %d elements were available", avail);
          }
          if (got) {
            if (tagv != consumed || e.canary != 0xE1E3) {
              snprintf(cls, sizeof cls, "%s:fifo-order", name);
              sim_fail(cls, "popped tag %d, expected %d", tagv, consumed);
            }
            consumed++;
          }
        }
        if (consumed > produced + 4) {
          snprintf(cls, sizeof cls, "%s:popped-more-than-pushed", name);
          sim_fail(cls, "consumed %d produced %d", consumed, produced);
        }
        if (got)
          idle = 0;
        else {
          ++idle;
          if (producerDone && consumed == produced)
            break;
          sim_work(1);
        }
      }
    });
    prod.join();
    cons.join();
    // drain sequentially
    while (consumed < produced) {
      Elem e;
      if (!ring.try_pop(e) || e.tag != consumed) {
        snprintf(cls, sizeof cls, "%s:quiescent-drain", name);
        sim_fail(cls, "drain: expected tag %d", consumed);
      }
      consumed++;
    }
    Elem e;
    if (ring.try_pop(e)) {
      snprintf(cls, sizeof cls, "%s:quiescent-pop-succeeds-empty", name);
      sim_fail(cls, "pop succeeded on an empty buffer");
    }
    for (size_t i = 0; i < cap; ++i)
      if (!ring.try_emplace(900 + (int)i)) {
        snprintf(cls, sizeof cls, "%s:quiescent-push-fails-not-full", name);
        sim_fail(cls, "push %zu of %zu failed", i, cap);
      }
    if (ring.try_emplace(999)) {
      snprintf(cls, sizeof cls, "%s:quiescent-push-succeeds-full", name);
      sim_fail(cls, "push succeeded on a full buffer");
    }
  }
  if (g_live != 0) {
    snprintf(cls, sizeof cls, "%s:lifetime-imbalance", name);
    sim_fail(cls, "%d elements alive after destruction", g_live);
  }
}

static void wlSpsc() {
  // power-of-two rounding and exact capacities; for exact mode both kinds of ring size (capacity+1 a power
  // of two or not), because index arithmetic differs
  switch (pick(8)) {
    case 4:
      spscRun<dispenso::SPSCRingBuffer<Elem, 2, false>>("spsc-cap2-exact");
      break;
    case 5:
      spscRun<dispenso::SPSCRingBuffer<Elem, 4, false>>("spsc-cap4-exact");
      break;
    case 6:
      spscRun<dispenso::SPSCRingBuffer<Elem, 5, false>>("spsc-cap5-exact");
      break;
    case 7:
      spscRun<dispenso::SPSCRingBuffer<Elem, 6, false>>("spsc-cap6-exact");
      break;
    case 0:
      spscRun<dispenso::SPSCRingBuffer<Elem, 2, true>>("spsc-cap2");
      break;
    case 1:
      spscRun<dispenso::SPSCRingBuffer<Elem, 3, false>>("spsc-cap3-exact");
      break;
    case 2:
      spscRun<dispenso::SPSCRingBuffer<Elem, 4, true>>("spsc-cap4");
      break;
    default:
      spscRun<dispenso::SPSCRingBuffer<Elem, 16, true>>("spsc-cap16");
      break;
  }
}

// ---------------------------------------------------------------------------------------------
// C36 ChaseLevDeque
// ---------------------------------------------------------------------------------------------
template <size_t Cap>
static void dequeRun() {
  char cls[128];
  // on the heap: stores to the running thread's own stack are never put in the simulated store buffer
  auto dqOwner = hx::heapNew<dispenso::ChaseLevDeque<int, Cap>>();
  dispenso::ChaseLevDeque<int, Cap>& dq = *dqOwner;
  int nThieves = range(1, 3);
  int nOps = range(1, 40);
  sim_note("cap", (int64_t)Cap);
  sim_note("thieves", nThieves);
  sim_note("ops", nOps);
  static const int kMax = 256;
  int taken[kMax] = {0};
  int pushedFlag[kMax] = {0};
  int nextTag = 0;
  int pushedOk = 0, takenOk = 0, takesInFlight = 0;
  bool ownerDone = false;
  auto take = [&](int v, const char* who) {
    if (v < 0 || v >= kMax || !pushedFlag[v]) {
      snprintf(cls, sizeof cls, "deque:%s-returned-unpushed", who);
      sim_fail(cls, "%s returned %d which was never pushed", who, v);
    }
    if (taken[v]++) {
      snprintf(cls, sizeof cls, "deque:element-taken-twice:%s", who);
      sim_fail(cls, "element %d returned twice (second time by %s)", v, who);
    }
    takenOk++;
  };
  std::vector<std::thread> thieves;
  for (int t = 0; t < nThieves; ++t) {
    thieves.emplace_back([&]() {
      int idle = 0;
      while (idle < 50) {
        int v = -1;
        takesInFlight++;
        bool ok = (sim_step() & 1) ? dq.try_steal(v) : dq.try_steal_into(&v);
        takesInFlight--;
        if (ok) {
          take(v, "steal");
          idle = 0;
        } else {
          ++idle;
          if (ownerDone && idle > 3)
            break;
          sim_work(1);
        }
      }
    });
  }
  // owner
  std::vector<int> ownerView; // tags the owner pushed and has not popped (thieves may have taken some)
  for (int i = 0; i < nOps; ++i) {
    if (sim_step() % 3 != 0 && nextTag < kMax) {
      pushedFlag[nextTag] = 1;
      bool ok = dq.try_push(nextTag);
      if (ok) {
        pushedOk++;
        ownerView.push_back(nextTag);
        long lower = (long)pushedOk - takenOk - takesInFlight;
        if (lower > (long)Cap) {
          sim_fail("deque:over-capacity", "at least %ld elements held, capacity %zu", lower, Cap);
        }
        nextTag++;
      } else {
        pushedFlag[nextTag] = 0;
      }
    } else {
      int v = -1;
      takesInFlight++;
      bool ok = (sim_step() & 1) ? dq.try_pop(v) : dq.try_pop_into(&v);
      takesInFlight--;
      if (ok) {
        take(v, "pop");
        // owner pops the newest remaining element: nothing pushed later than v may still be untaken
        for (int later = v + 1; later < nextTag; ++later)
          if (!taken[later]) {
            sim_fail("deque:pop-not-newest", "pop returned %d while the newer element %d is still in the deque", v, later);
          }
      }
    }
    if (i % 4 == 0)
      sim_work(1);
  }
  ownerDone = true;
  for (auto& t : thieves)
    t.join();
  // quiescent: pop/steal succeed iff non-empty
  int remaining = pushedOk - takenOk;
  if (dq.empty() != (remaining == 0))
    sim_fail("deque:quiescent-empty-mismatch", "empty() disagrees with the model: %d remain", remaining);
  for (int i = 0; i < remaining; ++i) {
    int v = -1;
    bool ok = (i & 1) ? dq.try_pop(v) : dq.try_steal(v);
    if (!ok)
      sim_fail("deque:quiescent-take-fails-nonempty", "take failed with %d elements remaining", remaining - i);
    take(v, (i & 1) ? "pop" : "steal");
  }
  int v = -1;
  if (dq.try_pop(v) || dq.try_steal(v))
    sim_fail("deque:quiescent-take-succeeds-empty", "take succeeded on an empty deque (%d)", v);
  for (int t = 0; t < nextTag; ++t)
    if (pushedFlag[t] && taken[t] != 1)
      sim_fail("deque:lost-element", "element %d pushed but taken %d times", t, taken[t]);
}
static void wlDeque() {
  switch (pick(4)) {
    case 0:
      dequeRun<1>();
      break;
    case 1:
      dequeRun<2>();
      break;
    case 2:
      dequeRun<4>();
      break;
    default:
      dequeRun<32>();
      break;
  }
}

// ---------------------------------------------------------------------------------------------
// C33 ConcurrentVector concurrent growth
// ---------------------------------------------------------------------------------------------
struct TrAsNeeded {
  static constexpr bool kPreferBuffersInline = true;
  static constexpr dispenso::ConcurrentVectorReallocStrategy kReallocStrategy = dispenso::ConcurrentVectorReallocStrategy::kAsNeeded;
  static constexpr bool kIteratorPreferSpeed = true;
};
struct TrHalf {
  static constexpr bool kPreferBuffersInline = false;
  static constexpr dispenso::ConcurrentVectorReallocStrategy kReallocStrategy = dispenso::ConcurrentVectorReallocStrategy::kHalfBufferAhead;
  static constexpr bool kIteratorPreferSpeed = false;
};
struct TrFull {
  static constexpr bool kPreferBuffersInline = true;
  static constexpr dispenso::ConcurrentVectorReallocStrategy kReallocStrategy = dispenso::ConcurrentVectorReallocStrategy::kFullBufferAhead;
  static constexpr bool kIteratorPreferSpeed = false;
};

// ConcurrentVector sizes its first buckets in bytes (512): with small elements nothing below 64 elements
// ever allocates a second bucket.  The vector workloads use a 128-byte element so that bucket boundaries
// (4, 8, 16, 32, ...) are crossed by short programs.
struct VElem : Elem {
  char pad[120];
  VElem() noexcept {}
  explicit VElem(int t) noexcept : Elem(t) {}
};

template <typename Traits>
static void vectorRun(const char* name) {
  char cls[128];
  g_live = 0;
  {
    size_t startCap = chance(1, 2) ? 2 : 4;
    dispenso::ConcurrentVector<VElem, Traits> vec(startCap, dispenso::ReserveTag);
    int nGrowers = range(2, 4);
    int opsEach = range(1, 10);
    sim_note("growers", nGrowers);
    sim_note("ops", opsEach);
    static const int kMaxIdx = 4096;
    std::vector<int>& owner = immortal<std::vector<int>>(kMaxIdx, -1); // index -> tag claimed
    // how a reader learns that an index is valid must itself be properly synchronised (as in any
    // real program): the grower publishes with a release store, the reader acquires
    struct Pub {
      std::atomic<int> f[kMaxIdx];
    };
    Pub& pub = immortal<Pub>();
    for (int i = 0; i < kMaxIdx; ++i)
      pub.f[i].store(0, std::memory_order_relaxed);
    int totalGrowth = 0;
    int nextTag = 0;
    bool done = false;
    auto claim = [&](size_t idx, int tag) {
      if (idx >= (size_t)kMaxIdx)
        return;
      if (owner[idx] != -1) {
        snprintf(cls, sizeof cls, "%s:index-handed-out-twice", name);
        sim_fail(cls, "index %zu returned to two growth operations (tags %d and %d)", idx, owner[idx], tag);
      }
      owner[idx] = tag;
      pub.f[idx].store(1, std::memory_order_release);
    };
    std::vector<std::thread> threads;
    for (int gidx = 0; gidx < nGrowers; ++gidx) {
      threads.emplace_back([&]() {
        const VElem* pinned = nullptr;
        int pinnedTag = -1;
        for (int i = 0; i < opsEach; ++i) {
          int tag = nextTag++;
          switch (sim_step() % 4) {
            case 0: {
              auto it = vec.push_back(VElem(tag));
              claim((size_t)(it - vec.begin()), tag);
              totalGrowth++;
              if (!pinned) {
                pinned = &*it;
                pinnedTag = tag;
              }
              break;
            }
            case 1: {
              auto it = vec.emplace_back(tag);
              claim((size_t)(it - vec.begin()), tag);
              totalGrowth++;
              break;
            }
            case 2: {
              size_t n = 1 + sim_step() % (((sim_step() >> 3) & 1) ? 5 : 24); // short ranges, and ranges spanning buckets
              auto it = vec.grow_by(n, VElem(tag));
              size_t base = (size_t)(it - vec.begin());
              for (size_t k = 0; k < n; ++k)
                claim(base + k, tag);
              totalGrowth += (int)n;
              break;
            }
            default: {
              size_t n = 1 + sim_step() % (((sim_step() >> 3) & 1) ? 5 : 24); // short ranges, and ranges spanning buckets
              auto it = vec.grow_by_generator(n, [tag]() { return VElem(tag); });
              size_t base = (size_t)(it - vec.begin());
              for (size_t k = 0; k < n; ++k)
                claim(base + k, tag);
              totalGrowth += (int)n;
              break;
            }
          }
          if (pinned && (pinned->tag != pinnedTag || pinned->canary != 0xE1E3)) {
            snprintf(cls, sizeof cls, "%s:reference-invalidated", name);
            sim_fail(cls, "a reference taken before further growth no longer shows its element (tag %d, now %d)", pinnedTag, pinned->tag);
          }
        }
      });
    }
    // a reader of already published elements
    threads.emplace_back([&]() {
      for (int r = 0; r < 30 && !done; ++r) {
        for (size_t i = 0; i < (size_t)kMaxIdx; ++i) {
          if (!pub.f[i].load(std::memory_order_acquire))
            break;
          // only elements whose growth call has returned are published
          const VElem& e = vec[i];
          if (e.canary != 0xE1E3 || e.tag != owner[i]) {
            snprintf(cls, sizeof cls, "%s:published-element-damaged", name);
            sim_fail(cls, "element %zu reads tag %d canary %x, expected tag %d", i, e.tag, e.canary, owner[i]);
          }
        }
        sim_work(3);
      }
    });
    for (size_t t = 0; t + 1 < threads.size(); ++t)
      threads[t].join();
    done = true;
    threads.back().join();
    if ((int)vec.size() != totalGrowth) {
      snprintf(cls, sizeof cls, "%s:size-mismatch", name);
      sim_fail(cls, "size() is %zu, total growth %d", vec.size(), totalGrowth);
    }
    for (int i = 0; i < totalGrowth && i < kMaxIdx; ++i) {
      if (owner[(size_t)i] < 0) {
        snprintf(cls, sizeof cls, "%s:index-gap", name);
        sim_fail(cls, "index %d below size() was never returned by a growth call", i);
      }
      if (vec[(size_t)i].tag != owner[(size_t)i] || vec[(size_t)i].canary != 0xE1E3) {
        snprintf(cls, sizeof cls, "%s:element-overwritten", name);
        sim_fail(cls, "element %d holds tag %d, expected %d", i, vec[(size_t)i].tag, owner[(size_t)i]);
      }
    }
    // grow_to_at_least from two threads
    size_t target = vec.size() + 1 + pick(9);
    std::thread a([&]() { vec.grow_to_at_least(target, VElem(7777)); });
    std::thread b([&]() { vec.grow_to_at_least(target - (target > 3 ? 2 : 0), VElem(7777)); });
    a.join();
    b.join();
    // "at least": two racing calls may both grow, so the size may exceed the larger request, but
    // never by more than the smaller request's growth
    if (vec.size() < target || vec.size() > target + (target - (size_t)totalGrowth)) {
      snprintf(cls, sizeof cls, "%s:grow_to_at_least-size", name);
      sim_fail(cls, "size() is %zu after concurrent grow_to_at_least(%zu) from %d", vec.size(), target, totalGrowth);
    }
    for (size_t i = (size_t)totalGrowth; i < vec.size(); ++i)
      if (vec[i].tag != 7777) {
        snprintf(cls, sizeof cls, "%s:grow_to_at_least-value", name);
        sim_fail(cls, "element %zu holds tag %d", i, vec[i].tag);
      }
  }
  if (g_live != 0) {
    snprintf(cls, sizeof cls, "%s:lifetime-imbalance", name);
    sim_fail(cls, "%d elements alive after destruction", g_live);
  }
}
static void wlVector() {
  switch (pick(3)) {
    case 0:
      vectorRun<TrAsNeeded>("vector-asneeded");
      break;
    case 1:
      vectorRun<TrHalf>("vector-halfahead");
      break;
    default:
      vectorRun<TrFull>("vector-fullahead");
      break;
  }
}

// A range growth that ends at or next to a bucket's last slots, racing single-element growths that take
// the following indices: the bucket that follows may be allocated by more than one of them, and whatever
// was written into a buffer that loses that race is gone.  Few threads, short program, sizes aimed at the
// bucket geometry (first bucket c0, then c0, 2*c0, 4*c0, ...).
template <typename Traits>
static void vectorBoundaryRun(const char* name) {
  char cls[128];
  g_live = 0;
  {
    size_t c0 = chance(1, 2) ? 2 : 4;
    dispenso::ConcurrentVector<VElem, Traits> vec(c0, dispenso::ReserveTag);
    // bucket boundaries: c0, 2c0, 4c0, 8c0, ...
    size_t boundary = c0 << range(1, 3);         // end of some bucket
    size_t half = boundary - (boundary >> 2);    // inside its second half
    static const int deltas[] = {0, -1, 1, -2};
    size_t end = (chance(1, 2) ? boundary : half) + (size_t)(long)oneOf(deltas);
    size_t prefill = (size_t)range(1, (int)std::min<size_t>(end - 1, 9));
    int nPushers = range(2, 3);
    int gateMode = (int)pick(3); // pushers start: at once / when the range is about to be published / late
    sim_note("c0", (int64_t)c0);
    sim_note("end", (int64_t)end);
    sim_note("prefill", (int64_t)prefill);
    sim_note("pushers", nPushers);
    static const int kMaxIdx = 256;
    std::vector<int>& owner = immortal<std::vector<int>>(kMaxIdx, -1);
    int nextTag = 0;
    for (size_t i = 0; i < prefill; ++i) {
      int tag = nextTag++;
      auto it = vec.push_back(VElem(tag));
      owner[(size_t)(it - vec.begin())] = tag;
    }
    const VElem* pinned = &vec[0];
    int total = (int)prefill;
    auto claim = [&](size_t idx, int tag) {
      if (idx >= (size_t)kMaxIdx)
        return;
      if (owner[idx] != -1) {
        snprintf(cls, sizeof cls, "%s:index-handed-out-twice", name);
        sim_fail(cls, "index %zu returned to two growth operations (tags %d and %d)", idx, owner[idx], tag);
      }
      owner[idx] = tag;
    };
    std::vector<std::thread> threads;
    size_t n = end - prefill;
    int rangeTag = nextTag++;
    threads.emplace_back([&, n, rangeTag]() {
      auto it = chance(1, 2) ? vec.grow_by_generator(n, [rangeTag]() { return VElem(rangeTag); }) : vec.grow_by(n, VElem(rangeTag));
      size_t base = (size_t)(it - vec.begin());
      for (size_t k = 0; k < n; ++k)
        claim(base + k, rangeTag);
      total += (int)n;
    });
    for (int p = 0; p < nPushers; ++p) {
      int k = range(1, 2);
      int t0 = nextTag;
      nextTag += k;
      threads.emplace_back([&, k, t0]() {
        if (gateMode == 1)
          for (int i = 0; i < 20000 && vec.size() < end - 1; ++i)
            sim_work(1);
        else if (gateMode == 2)
          sim_work(range(0, 60));
        for (int j = 0; j < k; ++j) {
          auto it = (j & 1) ? vec.emplace_back(t0 + j) : vec.push_back(VElem(t0 + j));
          claim((size_t)(it - vec.begin()), t0 + j);
          total++;
        }
      });
    }
    for (auto& t : threads)
      t.join();
    if ((int)vec.size() != total) {
      snprintf(cls, sizeof cls, "%s:size-mismatch", name);
      sim_fail(cls, "size() is %zu, total growth %d", vec.size(), total);
    }
    for (int i = 0; i < total && i < kMaxIdx; ++i) {
      if (owner[(size_t)i] < 0) {
        snprintf(cls, sizeof cls, "%s:index-gap", name);
        sim_fail(cls, "index %d below size() was never returned by a growth call", i);
      }
      if (vec[(size_t)i].tag != owner[(size_t)i] || vec[(size_t)i].canary != 0xE1E3) {
        snprintf(cls, sizeof cls, "%s:element-overwritten", name);
        sim_fail(cls, "element %d holds tag %d, expected %d (range ended at %zu, first bucket %zu)", i, vec[(size_t)i].tag,
                 owner[(size_t)i], end, c0);
      }
    }
    if (pinned != &vec[0] || pinned->tag != 0) {
      snprintf(cls, sizeof cls, "%s:reference-invalidated", name);
      sim_fail(cls, "a reference to element 0 taken before the growth is no longer that element");
    }
  }
  if (g_live != 0) {
    snprintf(cls, sizeof cls, "%s:lifetime-imbalance", name);
    sim_fail(cls, "%d elements alive after destruction", g_live);
  }
}
static void wlVectorBoundary() {
  switch (pick(3)) {
    case 0:
      vectorBoundaryRun<TrAsNeeded>("vector-asneeded");
      break;
    case 1:
      vectorBoundaryRun<TrHalf>("vector-halfahead");
      break;
    default:
      vectorBoundaryRun<TrFull>("vector-fullahead");
      break;
  }
}

// ---------------------------------------------------------------------------------------------
// C37 ConcurrentObjectArena
// ---------------------------------------------------------------------------------------------
struct Cell {
  int v = 0x5EED;
  int w = 0x0BAD;
};

static void wlArena() {
  char cls[128];
  static const size_t buffSizes[] = {2, 4, 8};
  size_t buffSize = oneOf(buffSizes);
  int nThreads = range(1, 4);
  int opsEach = range(1, 8);
  sim_note("buff", (int64_t)buffSize);
  sim_note("threads", nThreads);
  dispenso::ConcurrentObjectArena<Cell> arena(buffSize);
  static const int kMax = 2048;
  std::vector<int>& owner = immortal<std::vector<int>>(kMax, -1);
  int total = 0;
  int nextId = 0;
  std::vector<std::thread> threads;
  for (int t = 0; t < nThreads; ++t) {
    threads.emplace_back([&]() {
      Cell* pinned = nullptr;
      for (int i = 0; i < opsEach; ++i) {
        size_t delta = 1 + sim_step() % (2 * buffSize + 1);
        int id = nextId++;
        size_t start = arena.grow_by(delta);
        total += (int)delta;
        for (size_t k = 0; k < delta && start + k < (size_t)kMax; ++k) {
          if (owner[start + k] != -1) {
            sim_fail("arena:index-handed-out-twice", "index %zu returned to grow_by calls %d and %d", start + k, owner[start + k], id);
          }
          owner[start + k] = id;
          Cell& c = arena[start + k];
          if (c.v != 0x5EED || c.w != 0x0BAD)
            sim_fail("arena:element-not-default-constructed", "element %zu holds %x/%x", start + k, c.v, c.w);
          c.v = 1000 + id; // stamp it
        }
        if (!pinned)
          pinned = &arena[start];
        if (pinned->w != 0x0BAD)
          sim_fail("arena:reference-invalidated", "a reference taken before further growth changed (w=%x)", pinned->w);
      }
    });
  }
  for (auto& t : threads)
    t.join();
  if ((int)arena.size() != total)
    sim_fail("arena:size-mismatch", "size() is %zu, total growth %d", (size_t)arena.size(), total);
  for (int i = 0; i < total && i < kMax; ++i) {
    if (owner[(size_t)i] < 0)
      sim_fail("arena:index-gap", "index %d below size() was never returned", i);
    if (arena[(size_t)i].v != 1000 + owner[(size_t)i])
      sim_fail("arena:element-overwritten", "element %d holds %d, expected %d", i, arena[(size_t)i].v, 1000 + owner[(size_t)i]);
  }
  // single-threaded copies at whatever buffer count we reached, then a few more buffer counts
  for (int round = 0; round < 3; ++round) {
    size_t nb = (size_t)arena.numBuffers();
    auto same = [&](const dispenso::ConcurrentObjectArena<Cell>& x, const char* what) {
      if (x.size() != arena.size()) {
        snprintf(cls, sizeof cls, "arena:%s:size-differs", what);
        sim_fail(cls, "%s: size %zu vs %zu (buffers %zu)", what, (size_t)x.size(), (size_t)arena.size(), nb);
      }
      for (size_t i = 0; i < (size_t)arena.size(); ++i)
        if (x[i].v != arena[i].v || x[i].w != arena[i].w) {
          snprintf(cls, sizeof cls, "arena:%s:contents-differ", what);
          sim_fail(cls, "%s: element %zu differs (buffers %zu)", what, i, nb);
        }
    };
    // what copy/assign/move/swap produce is an arena in its own right: growing it (across buffer
    // boundaries) must hand out the next indices, default-constructed, and leave the copied part intact
    auto growDerived = [&](dispenso::ConcurrentObjectArena<Cell>& x, const char* what) {
      size_t before = (size_t)x.size();
      size_t delta = 1 + (size_t)pick((uint32_t)(2 * buffSize + 2));
      size_t start = x.grow_by(delta);
      if (start != before || (size_t)x.size() != before + delta) {
        snprintf(cls, sizeof cls, "arena:%s:then-grow:wrong-range", what);
        sim_fail(cls, "%s then grow_by(%zu): returned %zu, size %zu -> %zu (buffers %zu)", what, delta, start, before,
                 (size_t)x.size(), nb);
      }
      for (size_t k = 0; k < delta; ++k)
        if (x[start + k].v != 0x5EED || x[start + k].w != 0x0BAD) {
          snprintf(cls, sizeof cls, "arena:%s:then-grow:element-not-default-constructed", what);
          sim_fail(cls, "%s then grow_by: element %zu holds %x/%x", what, start + k, x[start + k].v, x[start + k].w);
        }
      for (size_t i = 0; i < before && i < (size_t)arena.size(); ++i)
        if (x[i].v != arena[i].v || x[i].w != arena[i].w) {
          snprintf(cls, sizeof cls, "arena:%s:then-grow:contents-changed", what);
          sim_fail(cls, "%s then grow_by: element %zu changed (buffers %zu)", what, i, nb);
        }
    };
    {
      dispenso::ConcurrentObjectArena<Cell> grown(arena);
      growDerived(grown, "copy-construct");
      dispenso::ConcurrentObjectArena<Cell> grown2(buffSize);
      grown2 = arena;
      growDerived(grown2, "copy-assign");
      dispenso::ConcurrentObjectArena<Cell> grown3(std::move(grown2));
      growDerived(grown3, "move-construct");
    }
    {
      dispenso::ConcurrentObjectArena<Cell> copy(arena);
      same(copy, "copy-construct");
      dispenso::ConcurrentObjectArena<Cell> assigned(buffSize);
      assigned = arena;
      same(assigned, "copy-assign");
      dispenso::ConcurrentObjectArena<Cell> moved(std::move(copy));
      same(moved, "move-construct");
      dispenso::ConcurrentObjectArena<Cell> target(buffSize);
      target = std::move(assigned);
      same(target, "move-assign");
      dispenso::ConcurrentObjectArena<Cell> other(buffSize);
      other.grow_by(3);
      swap(other, target);
      same(other, "swap");
    }
    arena.grow_by(buffSize * (1 + pick(3)));
  }
}

} // namespace

HX_WORKLOAD("C33", "vector", wlVector, SF_ALL | SF_TSO, 3000000, 3000000, 1);
HX_WORKLOAD("C33", "vector-boundary", wlVectorBoundary, SF_ALL | SF_TSO, 3000000, 3000000, 2);
HX_WORKLOAD("C34", "mpmc", wlMpmc, SF_ALL | SF_TSO, 3000000, 3000000, 1);
HX_WORKLOAD("C35", "spsc", wlSpsc, SF_ALL, 3000000, 3000000, 1);
HX_WORKLOAD("C36", "deque", wlDeque, SF_ALL | SF_TSO, 3000000, 3000000, 1);
HX_WORKLOAD("C37", "arena", wlArena, SF_ALL | SF_TSO, 3000000, 3000000, 1);
