// Workload family `future`: Future (C18), then/when_all/when_any (C19), timed waits (C20).
#include <dispenso/completion_event.h>
#include <dispenso/future.h>

#include <chrono>
#include <memory>
#include <thread>
#include <tuple>
#include <vector>

#include "hx.h"

using namespace hx;

namespace {

struct Payload {
  int canary = 0x600D;
  int tag = -1;
  Payload() {
    raceW(this, "future-result");
  }
  explicit Payload(int t) : tag(t) {
    raceW(this, "future-result");
  }
  Payload(const Payload& o) : canary(o.canary), tag(o.tag) {
    raceR(&o, "future-result");
    raceW(this, "future-result");
  }
  ~Payload() {
    raceW(this, "future-result");
    canary = 0xDEAD;
  }
};
struct Boom {
  int id;
};

enum Sched { S_POOL = 0, S_TS, S_CTS, S_IMM, S_NEWTHREAD, S_N };
static const char* schedName(int s) {
  static const char* n[] = {"ThreadPool", "TaskSet", "ConcurrentTaskSet", "ImmediateInvoker", "NewThreadInvoker"};
  return n[s];
}
static const char* polName(bool async, bool deferred) {
  return async ? (deferred ? "async+deferred" : "async") : (deferred ? "deferred" : "neither");
}

struct FRun {
  int funcRuns = 0;
  int funcTid = -1;
  DoneFlag funcDone;
  int sched = 0;
  bool async = false, deferred = false;
  bool throws = false;
};
static FRun* gf;

static void futHang(char* buf, size_t n) {
  snprintf(buf, n, "[sched=%s policy=%s functor-runs=%d done=%d]", schedName(gf->sched), polName(gf->async, gf->deferred),
           gf->funcRuns, (int)gf->funcDone.v);
}

template <typename S>
static dispenso::Future<Payload> makeFuture(S& sched, FRun& r, int work) {
  auto fn = [&r, work]() -> Payload {
    if (r.funcRuns++ > 0) {
      char cls[128];
      snprintf(cls, sizeof cls, "%s:%s:dup-run", schedName(r.sched), polName(r.async, r.deferred));
      sim_fail(cls, "future functor ran %d times", r.funcRuns);
    }
    r.funcTid = sim_tid();
    sim_event(5, 0, 0);
    sim_work(work);
    if (r.throws) {
      r.funcDone = true;
      throw Boom{7};
    }
    r.funcDone = true;
    return Payload(4242);
  };
  return dispenso::Future<Payload>(std::move(fn), sched, r.async ? std::launch::async : dispenso::kNotAsync,
                                   r.deferred ? std::launch::deferred : dispenso::kNotDeferred);
}

// getter thread body: a sequence of operations on its own copy
static void getterOps(dispenso::Future<Payload> f, FRun& r, const Payload** seen, std::vector<int> ops) {
  char cls[160];
  for (int op : ops) {
    switch (op) {
      case 0: { // get
        try {
          const Payload& p = f.get();
          raceR(&p, "future-result");
          if (r.throws) {
            snprintf(cls, sizeof cls, "%s:%s:exception-lost", schedName(r.sched), polName(r.async, r.deferred));
            sim_fail(cls, "get() returned a value although the functor threw");
          }
          if (!r.funcDone || p.canary != 0x600D || p.tag != 4242) {
            snprintf(cls, sizeof cls, "%s:%s:result-mismatch", schedName(r.sched), polName(r.async, r.deferred));
            sim_fail(cls, "get() returned before the functor finished or a damaged value (done=%d canary=%x tag=%d)", (int)r.funcDone.v,
                     p.canary, p.tag);
          }
          if (*seen && *seen != &p) {
            snprintf(cls, sizeof cls, "%s:%s:result-object-differs", schedName(r.sched), polName(r.async, r.deferred));
            sim_fail(cls, "two get() calls returned different result objects");
          }
          *seen = &p;
        } catch (Boom& b) {
          if (!r.throws || b.id != 7) {
            snprintf(cls, sizeof cls, "%s:%s:bogus-exception", schedName(r.sched), polName(r.async, r.deferred));
            sim_fail(cls, "get() threw although the functor did not");
          }
        }
        break;
      }
      case 1: // wait
        f.wait();
        if (!r.funcDone || !f.is_ready()) {
          snprintf(cls, sizeof cls, "%s:%s:wait-returned-early", schedName(r.sched), polName(r.async, r.deferred));
          sim_fail(cls, "wait() returned with functor done=%d is_ready=%d", (int)r.funcDone.v, f.is_ready());
        }
        break;
      case 2: { // wait_for
        auto st = f.wait_for(std::chrono::microseconds(1 + (int)(sim_step() % 40)));
        if (st == std::future_status::ready && !r.funcDone) {
          snprintf(cls, sizeof cls, "%s:%s:false-ready", schedName(r.sched), polName(r.async, r.deferred));
          sim_fail(cls, "wait_for reported ready before the functor finished");
        }
        break;
      }
      case 3: { // wait_until
        auto st = f.wait_until(std::chrono::steady_clock::now() + std::chrono::microseconds(1 + (int)(sim_step() % 40)));
        if (st == std::future_status::ready && !r.funcDone) {
          snprintf(cls, sizeof cls, "%s:%s:false-ready", schedName(r.sched), polName(r.async, r.deferred));
          sim_fail(cls, "wait_until reported ready before the functor finished");
        }
        break;
      }
      case 4: { // copy + destroy copy
        dispenso::Future<Payload> c = f;
        sim_work(1);
        (void)c.is_ready();
        break;
      }
      case 5: { // reassign own copy through a temporary (refcount churn)
        dispenso::Future<Payload> c = f;
        f = dispenso::Future<Payload>();
        sim_work(1);
        f = std::move(c);
        break;
      }
      default:
        (void)f.is_ready();
        break;
    }
  }
  if (r.sched != S_IMM && (r.funcTid == sim_tid()) && !r.deferred) {
    // ran on a getter thread: only get()/wait() may do that; wait_for/wait_until need the deferred policy.
    // (decided by the caller that knows which ops this thread used)
  }
}

template <typename S>
static void futureProgram(S& sched, FRun& r, dispenso::TaskSet* ts, dispenso::ConcurrentTaskSet* cts) {
  int nGetters = range(1, 4);
  int work = range(0, 6);
  sim_note("getters", nGetters);
  const Payload* seen = nullptr;
  std::vector<std::thread> threads;
  {
    dispenso::Future<Payload> fut = makeFuture(sched, r, work);
    for (int g = 0; g < nGetters; ++g) {
      std::vector<int> ops;
      int n = range(1, 5);
      for (int i = 0; i < n; ++i)
        ops.push_back((int)pick(7));
      // the last op of the first getter is always a get(): the result must be consumed by somebody
      if (g == 0)
        ops.push_back(0);
      threads.emplace_back(getterOps, fut, std::ref(r), &seen, ops);
    }
    // the creating thread drops its copy at a random point
    sim_work(range(0, 10));
  }
  // task sets must be waited by their owning thread; this may run the functor
  if (ts && chance(1, 2))
    ts->wait();
  for (auto& t : threads)
    t.join();
  if (ts)
    ts->wait();
  if (cts)
    cts->wait();
  if (r.funcRuns != 1) {
    char cls[128];
    snprintf(cls, sizeof cls, "%s:%s:never-run", schedName(r.sched), polName(r.async, r.deferred));
    sim_fail(cls, "functor ran %d times after all getters returned", r.funcRuns);
  }
}

static void wlFuture() {
  FRun r;
  gf = &r;
  sim_set_hang_describer(futHang);
  r.sched = (int)pick(S_N);
  r.async = chance(1, 2);
  r.deferred = chance(1, 2);
  r.throws = chance(1, 5);
  int nThreads = range(0, 3);
  sim_note("sched", r.sched);
  sim_note("policy", r.async * 2 + r.deferred);
  sim_note("pool", nThreads);
  sim_note("throws", r.throws);
  dispenso::ThreadPool pool((size_t)nThreads, (size_t)(chance(1, 3) ? 1 : 32));
  switch (r.sched) {
    case S_POOL:
      futureProgram(pool, r, nullptr, nullptr);
      break;
    case S_TS: {
      dispenso::TaskSet ts(pool);
      futureProgram(ts, r, &ts, nullptr);
      break;
    }
    case S_CTS: {
      dispenso::ConcurrentTaskSet cts(pool);
      futureProgram(cts, r, nullptr, &cts);
      break;
    }
    case S_IMM: {
      dispenso::ImmediateInvoker inv;
      futureProgram(inv, r, nullptr, nullptr);
      break;
    }
    default: {
      dispenso::NewThreadInvoker inv;
      futureProgram(inv, r, nullptr, nullptr);
      break;
    }
  }
}

// ---------------------------------------------------------------------------------------------
// C19: then / when_all / when_any
// ---------------------------------------------------------------------------------------------
struct Src {
  DoneFlag done;
  int runs = 0;
};

static void wlThen() {
  int nThreads = range(0, 3);
  int chainLen = range(1, 6);
  int regPhase = (int)pick(3); // 0 register early, 1 after some work, 2 after the antecedent is surely ready
  int schedKind = (int)pick(3); // 0 pool 1 immediate 2 CTS
  bool asyncPol = chance(1, 2);
  bool notDeferred = chance(1, 2);
  sim_note("notdeferred", notDeferred);
  sim_note("pool", nThreads);
  sim_note("chain", chainLen);
  sim_note("phase", regPhase);
  sim_note("sched", schedKind);
  dispenso::ThreadPool pool((size_t)nThreads, (size_t)(chance(1, 3) ? 1 : 32));
  dispenso::ConcurrentTaskSet cts(pool);
  dispenso::ImmediateInvoker imm;
  Src src;
  std::vector<int> contRuns((size_t)chainLen, 0);
  int work = range(0, 8);
  dispenso::Future<int> first = dispenso::async(pool, [&src, work]() {
    sim_work(work);
    src.runs++;
    src.done = true;
    return 1;
  });
  if (regPhase == 1)
    sim_work(range(0, 12));
  if (regPhase == 2)
    first.wait();
  dispenso::Future<int> cur = first;
  std::vector<dispenso::Future<int>> all;
  for (int i = 0; i < chainLen; ++i) {
    auto cont = [&contRuns, &src, i](dispenso::Future<int>&& ante) {
      char cls[128];
      if (contRuns[(size_t)i]++ > 0) {
        snprintf(cls, sizeof cls, "then:dup-run:link%d", i > 0);
        sim_fail(cls, "continuation %d ran twice", i);
      }
      if (!ante.is_ready() || !src.done) {
        snprintf(cls, sizeof cls, "then:antecedent-not-ready:link%d", i > 0);
        sim_fail(cls, "continuation %d started while its antecedent is not ready", i);
      }
      sim_work(1);
      return ante.get() + 1;
    };
    auto pol = asyncPol ? std::launch::async : dispenso::kNotAsync;
    // a not-deferred continuation must still not run before its antecedent when somebody waits on it early
    auto dpol = notDeferred ? dispenso::kNotDeferred : std::launch::deferred;
    dispenso::Future<int> next = schedKind == 0 ? cur.then(cont, pool, pol, dpol)
                                                : (schedKind == 1 ? cur.then(cont, imm, pol, dpol) : cur.then(cont, cts, pol, dpol));
    all.push_back(next);
    cur = next;
    if (chance(1, 3))
      sim_work(range(0, 6));
  }
  int v = cur.get();
  if (v != chainLen + 1)
    sim_fail("then:wrong-value", "chain of %d produced %d", chainLen, v);
  cts.wait();
  for (int i = 0; i < chainLen; ++i)
    if (contRuns[(size_t)i] != 1)
      sim_fail("then:never-run", "continuation %d ran %d times", i, contRuns[(size_t)i]);
}

// several continuations attached to ONE future, by one or more threads, while it completes: every
// one of them must run exactly once, after the antecedent is ready (a continuation stranded in the
// then-chain shows as a get() that never returns)
static int g_fanPending;
static int g_fanWorkMul = 1;
static void fanHangKey(char* buf, size_t n) {
  snprintf(buf, n, g_fanPending ? "continuation-never-run" : "other");
}
static void wlThenFanout() {
  int nThreads = range(1, 3);
  // a lone continuation is the case in which nobody else can rescue a stranded link: give it a good share
  bool lone = chance(1, 3);
  int nReg = lone ? 1 : range(1, 3);
  int schedKind = (int)pick(3); // 0 pool 1 immediate 2 CTS
  bool asyncPol = chance(1, 2);
  int work = range(0, 10);
  sim_note("pool", nThreads);
  sim_note("registrars", nReg);
  sim_note("sched", schedKind);
  dispenso::ThreadPool pool((size_t)nThreads, (size_t)(chance(1, 3) ? 1 : 32));
  dispenso::ConcurrentTaskSet cts(pool);
  dispenso::ImmediateInvoker imm;
  dispenso::NewThreadInvoker nti;
  static Src src;
  src = Src();
  static int runs[16];
  memset(runs, 0, sizeof runs);
  g_fanPending = 0;
  sim_set_hang_keyer(fanHangKey);
  static int bodyStarted;
  bodyStarted = 0;
  auto antecedent = [work]() {
    return [work]() {
      bodyStarted = 1;
      sim_work(work * g_fanWorkMul);
      src.runs++;
      src.done = true;
      return 1;
    };
  };
  // when a registrar calls then(): at once, or a little after the antecedent's body has started (so that
  // registration and completion are close), or after a long delay
  int regMode = (int)pick(3);
  sim_note("regmode", regMode);
  static const int muls[] = {1, 4, 10, 25};
  g_fanWorkMul = regMode == 1 ? oneOf(muls) : 1; // then() itself is tens of points long: stretch the body to meet it
  dispenso::Future<int> first = chance(1, 2) ? dispenso::Future<int>(antecedent(), nti)
                                             : dispenso::Future<int>(antecedent(), pool, std::launch::async);
  std::vector<std::vector<dispenso::Future<int>>> results((size_t)nReg);
  std::vector<std::thread> regs;
  int ks[3], delays[3], total = 0;
  for (int t = 0; t < nReg; ++t) {
    ks[t] = lone ? 1 : range(1, 3);
    delays[t] = range(0, 12);
    total += ks[t];
  }
  // nobody calls get()/wait() on a continuation's future before every continuation has run by
  // itself: a waiter would run a stranded continuation inline and hide that it was never dispatched
  static SimLatch allRan;
  allRan = SimLatch(total);
  int slot = 0;
  for (int t = 0; t < nReg; ++t) {
    int k = ks[t], delay = delays[t];
    int base = slot;
    slot += k;
    auto body = [&, t, k, delay, base](dispenso::Future<int> mine) {
      if (regMode == 1)
        for (int i = 0; i < 100000 && !bodyStarted; ++i)
          sim_sleep_ns(500);
      sim_work(regMode == 2 ? delay * 25 : delay);
      for (int j = 0; j < k; ++j) {
        int id = base + j;
        auto cont = [id](dispenso::Future<int>&& ante) {
          if (runs[id]++ > 0)
            sim_fail("then-fanout:dup-run", "continuation %d ran twice", id);
          if (!ante.is_ready() || !src.done)
            sim_fail("then-fanout:antecedent-not-ready", "continuation %d started while its antecedent is not ready", id);
          sim_work(1);
          int v = ante.get() + id;
          allRan.countDown();
          return v;
        };
        auto pol = asyncPol ? std::launch::async : dispenso::kNotAsync;
        results[(size_t)t].push_back(schedKind == 0 ? mine.then(cont, pool, pol)
                                                    : (schedKind == 1 ? mine.then(cont, imm, pol) : mine.then(cont, cts, pol)));
      }
    };
    if (t == 0)
      body(first); // the creating thread registers too
    else
      regs.emplace_back(body, first);
  }
  for (auto& th : regs)
    th.join();
  g_fanPending = 1;
  allRan.wait();
  int id = 0;
  for (auto& v : results)
    for (auto& f : v) {
      int got = f.get();
      if (got != 1 + id)
        sim_fail("then-fanout:wrong-value", "continuation %d produced %d", id, got);
      ++id;
    }
  g_fanPending = 0;
  cts.wait();
  for (int i = 0; i < slot; ++i)
    if (runs[i] != 1)
      sim_fail("then-fanout:never-run", "continuation %d ran %d times", i, runs[i]);
}

// One continuation per future, nobody else interested in that future: the case in which a link that the
// completing thread overlooks can be rescued by nobody (no second then(), no waiter).  The window is a
// couple of atomic operations wide while then() is hundreds of points long, so one run makes several
// independent attempts, each registering close to the moment its antecedent completes.
static void wlThenLone() {
  int nThreads = range(1, 3);
  int reps = range(2, 8);
  int schedKind = (int)pick(3); // 0 pool 1 immediate 2 CTS
  bool asyncPol = chance(1, 2);
  sim_note("pool", nThreads);
  sim_note("reps", reps);
  sim_note("sched", schedKind);
  dispenso::ThreadPool pool((size_t)nThreads, (size_t)(chance(1, 3) ? 1 : 32));
  dispenso::ConcurrentTaskSet cts(pool);
  dispenso::ImmediateInvoker imm;
  dispenso::NewThreadInvoker nti;
  static Src srcs[8];
  static int started[8];
  static int runs[8];
  for (int i = 0; i < 8; ++i) {
    srcs[i] = Src();
    started[i] = 0;
    runs[i] = 0;
  }
  g_fanPending = 0;
  sim_set_hang_keyer(fanHangKey);
  static SimLatch allRan;
  allRan = SimLatch(reps);
  std::vector<dispenso::Future<int>> conts;
  static const int muls[] = {1, 4, 10, 25};
  for (int r = 0; r < reps; ++r) {
    int work = range(0, 10) * oneOf(muls);
    int mode = (int)pick(3);
    int delay = range(0, 12);
    auto body = [r, work]() {
      return [r, work]() {
        started[r] = 1;
        sim_work(work);
        srcs[r].runs++;
        srcs[r].done = true;
        return 1;
      };
    };
    dispenso::Future<int> first =
        chance(1, 3) ? dispenso::Future<int>(body(), nti) : dispenso::Future<int>(body(), pool, std::launch::async);
    if (mode == 1)
      for (int i = 0; i < 100000 && !started[r]; ++i)
        sim_sleep_ns(300);
    sim_work(mode == 2 ? delay * 25 : delay);
    auto cont = [r](dispenso::Future<int>&& ante) {
      if (runs[r]++ > 0)
        sim_fail("then-lone:dup-run", "continuation %d ran twice", r);
      if (!ante.is_ready() || !srcs[r].done)
        sim_fail("then-lone:antecedent-not-ready", "continuation %d started while its antecedent is not ready", r);
      int v = ante.get() + r;
      allRan.countDown();
      return v;
    };
    auto pol = asyncPol ? std::launch::async : dispenso::kNotAsync;
    conts.push_back(schedKind == 0 ? first.then(cont, pool, pol)
                                   : (schedKind == 1 ? first.then(cont, imm, pol) : first.then(cont, cts, pol)));
    // `first` goes out of scope here: only the library holds the antecedent now
  }
  g_fanPending = 1;
  allRan.wait();
  for (int r = 0; r < reps; ++r) {
    int got = conts[(size_t)r].get();
    if (got != 1 + r)
      sim_fail("then-lone:wrong-value", "continuation %d produced %d", r, got);
  }
  g_fanPending = 0;
  cts.wait();
  for (int r = 0; r < reps; ++r)
    if (runs[r] != 1)
      sim_fail("then-lone:never-run", "continuation %d ran %d times", r, runs[r]);
}

// Several threads attach one continuation each to the SAME pending future at the same moment: the only
// race is push against push on the then-chain.  Every continuation must still run exactly once, by itself.
static void wlThenCollide() {
  int nThreads = range(1, 3);
  int reps = range(1, 4);
  int schedKind = (int)pick(3); // 0 pool 1 immediate 2 CTS
  bool asyncPol = chance(1, 2);
  sim_note("pool", nThreads);
  sim_note("reps", reps);
  sim_note("sched", schedKind);
  dispenso::ThreadPool pool((size_t)nThreads + 1, (size_t)32);
  dispenso::ConcurrentTaskSet cts(pool);
  dispenso::ImmediateInvoker imm;
  static Src srcs[4];
  static int go[4];
  static int runs[16];
  for (int i = 0; i < 4; ++i) {
    srcs[i] = Src();
    go[i] = 0;
  }
  memset(runs, 0, sizeof runs);
  g_fanPending = 0;
  sim_set_hang_keyer(fanHangKey);
  int regsPer[4], total = 0;
  for (int r = 0; r < reps; ++r) {
    regsPer[r] = range(2, 4);
    total += regsPer[r];
  }
  static SimLatch allRan;
  allRan = SimLatch(total);
  std::vector<dispenso::Future<int>> conts((size_t)total);
  int slot = 0;
  for (int r = 0; r < reps; ++r) {
    dispenso::Future<int> parent(
        [r]() {
          for (int i = 0; i < 200000 && !go[r]; ++i)
            sim_sleep_ns(300);
          srcs[r].runs++;
          srcs[r].done = true;
          return 1;
        },
        pool, std::launch::async);
    int n = regsPer[r];
    static int arrived;
    arrived = 0;
    std::vector<std::thread> regs;
    for (int k = 0; k < n; ++k) {
      int id = slot++;
      regs.emplace_back([&, id, r, n](dispenso::Future<int> mine) {
        arrived++;
        for (int i = 0; i < 100000 && arrived < n; ++i)
          sim_sleep_ns(100);
        auto cont = [id, r](dispenso::Future<int>&& ante) {
          if (runs[id]++ > 0)
            sim_fail("then-collide:dup-run", "continuation %d ran twice", id);
          if (!ante.is_ready() || !srcs[r].done)
            sim_fail("then-collide:antecedent-not-ready", "continuation %d started while its antecedent is not ready", id);
          int v = ante.get() + id;
          allRan.countDown();
          return v;
        };
        auto pol = asyncPol ? std::launch::async : dispenso::kNotAsync;
        conts[(size_t)id] = schedKind == 0 ? mine.then(cont, pool, pol)
                                            : (schedKind == 1 ? mine.then(cont, imm, pol) : mine.then(cont, cts, pol));
      }, parent);
    }
    for (auto& t : regs)
      t.join();
    go[r] = 1; // only now may the parent complete: every link is on the chain
  }
  g_fanPending = 1;
  allRan.wait();
  for (int id = 0; id < total; ++id) {
    int got = conts[(size_t)id].get();
    if (got != 1 + id)
      sim_fail("then-collide:wrong-value", "continuation %d produced %d", id, got);
  }
  g_fanPending = 0;
  cts.wait();
  for (int id = 0; id < total; ++id)
    if (runs[id] != 1)
      sim_fail("then-collide:never-run", "continuation %d ran %d times", id, runs[id]);
}

static void wlWhen() {
  int nThreads = range(0, 3);
  int n = range(0, 5);
  int kind = (int)pick(6); // 0 all-iter 1 all-tuple 2 any-iter 3 any-tuple 4 all-iter(taskset) 5 all-tuple(cts)
  sim_note("pool", nThreads);
  sim_note("n", n);
  sim_note("kind", kind);
  dispenso::ThreadPool pool((size_t)nThreads, (size_t)(chance(1, 3) ? 1 : 32));
  std::vector<Src> srcs((size_t)std::max(n, 3));
  std::vector<dispenso::Future<int>> ins;
  auto mk = [&](int i) {
    int work = range(0, 10);
    Src* s = &srcs[(size_t)i];
    return dispenso::async(pool, [s, work, i]() {
      sim_work(work);
      s->runs++;
      s->done = true;
      return 100 + i;
    });
  };
  char cls[128];
  if (kind == 0 || kind == 4) {
    for (int i = 0; i < n; ++i)
      ins.push_back(mk(i));
    dispenso::TaskSet ts(pool);
    auto res = kind == 0 ? dispenso::when_all(ins.begin(), ins.end()) : dispenso::when_all(ts, ins.begin(), ins.end());
    if (kind == 4) {
      ts.wait();
      if (!res.is_ready())
        sim_fail("when_all-taskset:not-ready-after-wait", "taskSet.wait() returned but the when_all future is not ready");
    }
    const auto& vec = res.get();
    if ((int)vec.size() != n)
      sim_fail("when_all-iter:size", "result has %zu entries for %d inputs", vec.size(), n);
    for (int i = 0; i < n; ++i) {
      if (!srcs[(size_t)i].done || !vec[(size_t)i].is_ready() || vec[(size_t)i].get() != 100 + i) {
        snprintf(cls, sizeof cls, "when_all-iter:%s", !srcs[(size_t)i].done ? "ready-before-inputs" : "wrong-order");
        sim_fail(cls, "when_all result ready but input %d done=%d", i, (int)srcs[(size_t)i].done.v);
      }
    }
  } else if (kind == 1 || kind == 5) {
    auto a = mk(0), b = mk(1), c = mk(2);
    dispenso::ConcurrentTaskSet cts(pool);
    auto res = kind == 1 ? dispenso::when_all(a, b, c) : dispenso::when_all(cts, a, b, c);
    if (kind == 5) {
      cts.wait();
      if (!res.is_ready())
        sim_fail("when_all-taskset:not-ready-after-wait", "taskSet.wait() returned but the when_all future is not ready");
    }
    const auto& tup = res.get();
    if (!srcs[0].done || !srcs[1].done || !srcs[2].done)
      sim_fail("when_all-tuple:ready-before-inputs", "when_all(tuple) ready before all inputs");
    if (std::get<0>(tup).get() != 100 || std::get<1>(tup).get() != 101 || std::get<2>(tup).get() != 102)
      sim_fail("when_all-tuple:wrong-order", "tuple order broken");
  } else if (kind == 2) {
    if (n == 0)
      n = 1;
    for (int i = 0; i < n; ++i)
      ins.push_back(mk(i));
    auto res = dispenso::when_any(ins.begin(), ins.end());
    size_t idx = res.get();
    if (idx >= (size_t)n || !srcs[idx].done || !ins[idx].is_ready())
      sim_fail("when_any-iter:index-not-ready", "when_any gave index %zu (n=%d) which is not ready", idx, n);
  } else {
    auto a = mk(0), b = mk(1), c = mk(2);
    auto res = dispenso::when_any(a, b, c);
    size_t idx = res.get();
    if (idx >= 3 || !srcs[idx].done)
      sim_fail("when_any-tuple:index-not-ready", "when_any gave index %zu which is not ready", idx);
    a.wait();
    b.wait();
    c.wait();
  }
  for (auto& f : ins)
    f.wait();
}

// ---------------------------------------------------------------------------------------------
// C20: timed waits
// ---------------------------------------------------------------------------------------------
static double timeoutFor(int cls) {
  switch (cls) {
    case 0:
      return 0.0;
    case 1:
      return -1.0;
    case 2:
      return 1e-9 * (double)range(1, 900);       // ns
    case 3:
      return 1e-6 * (double)range(1, 900);       // sub-ms
    case 4:
      return 1e-3 * (double)range(1, 3000);      // ms..s
    default:
      return 1e9;                                // practically forever
  }
}
static const char* toName(int cls) {
  static const char* n[] = {"zero", "negative", "ns", "sub-ms", "seconds", "huge"};
  return n[cls];
}

static void wlTimedEvent() {
  int cls = (int)pick(6);
  double to = timeoutFor(cls);
  int api = (int)pick(3); // 0 waitFor, 1 waitUntil steady, 2 waitUntil system
  uint64_t notifyAt = 0;
  bool willNotify = chance(3, 4) || cls == 5;
  switch (pick(4)) {
    case 0:
      notifyAt = (uint64_t)range(0, 2000); // ns
      break;
    case 1:
      notifyAt = 1000ull * (uint64_t)range(0, 2000); // us
      break;
    case 2:
      notifyAt = (uint64_t)(to > 0 && to < 100 ? to * 1e9 : 1000) + (uint64_t)range(0, 200) - 100; // around the timeout
      break;
    default:
      notifyAt = 1000000ull * (uint64_t)range(0, 4000);
      break;
  }
  sim_note("timeout", cls);
  sim_note("api", api);
  sim_note("notify", willNotify);
  dispenso::CompletionEvent ev;
  bool notified = false;
  std::thread notifier([&]() {
    if (!willNotify)
      return;
    sim_sleep_ns(notifyAt);
    notified = true;
    ev.notify();
  });
  int waiters = range(1, 3);
  std::vector<std::thread> ws;
  for (int w = 0; w < waiters; ++w) {
    ws.emplace_back([&, w]() {
      sim_work(w);
      uint64_t t0 = sim_now_ns();
      double want = std::min(to, 1e8);
      // absolute deadline in simulated ns (steady clock epoch = 0, system clock = + fixed offset)
      int64_t deadlineNs = (int64_t)t0 + (int64_t)(want * 1e9);
      bool res;
      if (api == 0)
        res = ev.waitFor(std::chrono::duration<double>(to));
      else if (api == 1)
        res = ev.waitUntil(std::chrono::steady_clock::time_point(std::chrono::nanoseconds(deadlineNs)));
      else
        res = ev.waitUntil(std::chrono::system_clock::time_point(
            std::chrono::nanoseconds(deadlineNs + (int64_t)sim_realtime_offset_ns())));
      uint64_t tEnd = sim_now_ns();
      char key[128];
      if (res && !notified) {
        snprintf(key, sizeof key, "event:%s:%s:false-complete", api == 0 ? "waitFor" : "waitUntil", toName(cls));
        sim_fail(key, "timed wait reported completion before notify() was invoked");
      }
      if (!res && to > 0) {
        // relative wait: at least `to` elapsed since the call; absolute wait: the deadline has passed
        bool early = api == 0 ? ((double)(tEnd - t0) * 1e-9 < want) : ((int64_t)tEnd < deadlineNs);
        if (early) {
          snprintf(key, sizeof key, "event:%s:%s:early-timeout", api == 0 ? "waitFor" : "waitUntil", toName(cls));
          sim_fail(key, "timed out after %.9f s, requested %.9f s", (double)(tEnd - t0) * 1e-9, want);
        }
      }
    });
  }
  for (auto& t : ws)
    t.join();
  notifier.join();
}

static void wlTimedFuture() {
  int cls = (int)pick(5);
  double to = timeoutFor(cls);
  bool deferred = chance(1, 2);
  bool async = chance(1, 2);
  int nThreads = range(0, 2);
  bool stalledPool = chance(1, 2) && nThreads > 0;
  sim_note("timeout", cls);
  sim_note("deferred", deferred);
  sim_note("pool", nThreads);
  sim_note("stalled", stalledPool);
  // everything the queued functors touch is declared before the pool: ~ThreadPool still runs queued work
  SimLatch release(1);
  bool done = false;
  int funcTid = -1;
  int work = 0;
  dispenso::ThreadPool pool((size_t)nThreads);
  if (stalledPool) {
    // occupy every worker so the future's functor stays queued
    for (int i = 0; i < nThreads; ++i)
      pool.schedule([&release]() { release.wait(); }, dispenso::ForceQueuingTag());
  }
  work = range(0, 30);
  dispenso::Future<int> f(
      [&]() {
        funcTid = sim_tid();
        sim_work(work);
        done = true;
        return 5;
      },
      pool, async ? std::launch::async : dispenso::kNotAsync, deferred ? std::launch::deferred : dispenso::kNotDeferred);
  bool useUntil = chance(1, 2);
  int funcTidAtConstruction = funcTid; // a non-async future may legitimately run inline in its constructor
  uint64_t t0 = sim_now_ns();
  int64_t deadlineNs = (int64_t)t0 + (int64_t)(to * 1e9);
  std::future_status st;
  if (useUntil)
    st = f.wait_until(std::chrono::steady_clock::time_point(std::chrono::nanoseconds(deadlineNs)));
  else
    st = f.wait_for(std::chrono::duration<double>(to));
  uint64_t tEnd = sim_now_ns();
  char key[128];
  const char* apiN = useUntil ? "wait_until" : "wait_for";
  if (st == std::future_status::ready && !done) {
    snprintf(key, sizeof key, "future:%s:%s:false-ready", apiN, toName(cls));
    sim_fail(key, "%s reported ready before the functor finished", apiN);
  }
  bool early = useUntil ? ((int64_t)tEnd < deadlineNs) : ((double)(tEnd - t0) * 1e-9 < to);
  if (st == std::future_status::timeout && to > 0 && early) {
    snprintf(key, sizeof key, "future:%s:%s:early-timeout", apiN, toName(cls));
    sim_fail(key, "%s timed out after %.9f s, requested %.9f s", apiN, (double)(tEnd - t0) * 1e-9, to);
  }
  if (!deferred && funcTid == sim_tid() && funcTidAtConstruction != sim_tid()) {
    snprintf(key, sizeof key, "future:%s:ran-inline-without-deferred", apiN);
    sim_fail(key, "a non-deferred future's functor ran on the thread calling %s", apiN);
  }
  release.countDown();
  f.wait();
}

} // namespace

HX_WORKLOAD("C18", "future", wlFuture, SF_ALL | SF_TSO, 4000000, 4000000, 1);
HX_WORKLOAD("C19", "then", wlThen, SF_ALL | SF_TSO, 4000000, 4000000, 1);
HX_WORKLOAD("C19", "then-fanout", wlThenFanout, SF_ALL | SF_TSO, 400000, 400000, 2);
HX_WORKLOAD("C19", "then-lone", wlThenLone, SF_ALL | SF_TSO, 400000, 400000, 2);
HX_WORKLOAD("C19", "then-collide", wlThenCollide, SF_ALL | SF_TSO, 600000, 600000, 2);
HX_WORKLOAD("C19", "when", wlWhen, SF_ALL | SF_TSO, 4000000, 4000000, 1);
HX_WORKLOAD("C20", "timed-event", wlTimedEvent, SF_ALL, 4000000, 4000000, 1);
HX_WORKLOAD("C20", "timed-future", wlTimedFuture, SF_ALL, 4000000, 4000000, 1);
