// Workload family `nest`: nested waits never deadlock (C06); inline execution depth is bounded (C46).
#include <dispenso/future.h>
#include <dispenso/graph.h>
#include <dispenso/graph_executor.h>
#include <dispenso/parallel_for.h>
#include <dispenso/pipeline.h>
#include <dispenso/task_set.h>

#include <memory>
#include <thread>
#include <vector>

#include "hx.h"

using namespace hx;

namespace {

// ---------------------------------------------------------------------------------------------
// C06
// ---------------------------------------------------------------------------------------------
struct NestCtx {
  dispenso::ThreadPool* pool;
  int leaves = 0;
  int leavesDone = 0;
  int maxDepth = 0;
  int nodes = 0;
  const char* lastKind = "?";
};
static NestCtx* gn;

static void nestDescribe(char* buf, size_t n) {
  snprintf(buf, n, "[nodes=%d leaves=%d/%d]", gn->nodes, gn->leavesDone, gn->leaves);
}

// a node of the nesting program; decides its shape when it runs (plan stream), acyclic by construction
static void runNode(int depth) {
  NestCtx& c = *gn;
  c.nodes++;
  if (depth >= c.maxDepth || c.nodes > 120) {
    c.leaves++;
    sim_work(1 + (int)(sim_step() % 4));
    c.leavesDone++;
    return;
  }
  dispenso::ThreadPool& pool = *c.pool;
  int fan = range(1, 5);
  switch (pick(6)) {
    case 0: { // TaskSet in task
      dispenso::TaskSet ts(pool, chance(1, 2) ? 1 : 4);
      for (int i = 0; i < fan; ++i)
        ts.schedule([depth]() { runNode(depth + 1); });
      ts.wait();
      break;
    }
    case 1: { // ConcurrentTaskSet, heavy or light
      dispenso::ConcurrentTaskSet ts(pool, chance(1, 2) ? dispenso::TaskCost::kHeavy : dispenso::TaskCost::kLightweight,
                                     chance(1, 2) ? 1 : 4);
      for (int i = 0; i < fan; ++i)
        ts.schedule([depth]() { runNode(depth + 1); });
      ts.wait();
      break;
    }
    case 2: { // futures: get() inside a task
      std::vector<dispenso::Future<int>> fs;
      for (int i = 0; i < fan; ++i)
        fs.push_back(dispenso::async(pool, [depth]() {
          runNode(depth + 1);
          return 1;
        }));
      for (auto& f : fs)
        (void)f.get();
      break;
    }
    case 3: { // blocking parallel_for inside a task
      dispenso::TaskSet ts(pool);
      dispenso::ParForOptions o;
      o.defaultChunking = chance(1, 2) ? dispenso::ParForChunking::kStatic : dispenso::ParForChunking::kAdaptive;
      dispenso::parallel_for(ts, 0, fan, [depth](int) { runNode(depth + 1); }, o);
      break;
    }
    case 4: { // bulk schedule then wait
      dispenso::TaskSet ts(pool);
      ts.scheduleBulk((size_t)fan, [depth](size_t) { return [depth]() { runNode(depth + 1); }; });
      ts.wait();
      break;
    }
    default: { // future + then, waited through the continuation
      auto f = dispenso::async(pool, [depth]() {
        runNode(depth + 1);
        return 1;
      });
      auto g2 = f.then([depth](dispenso::Future<int>&& a) {
        runNode(depth + 1);
        return a.get() + 1;
      }, pool);
      (void)g2.get();
      break;
    }
  }
}

static void wlNested() {
  NestCtx c;
  gn = &c;
  sim_set_hang_describer(nestDescribe);
  int nThreads = range(0, 4);
  c.maxDepth = range(1, 3);
  int roots = range(1, 6);
  sim_note("pool", nThreads);
  sim_note("depth", c.maxDepth);
  sim_note("roots", roots);
  static const int mults[] = {32, 1, 2};
  dispenso::ThreadPool pool((size_t)nThreads, (size_t)oneOf(mults));
  c.pool = &pool;
  {
    // every pool thread (and more) starts out inside a task that itself blocks in nested waits
    dispenso::ConcurrentTaskSet top(pool);
    for (int r = 0; r < roots; ++r)
      top.schedule([]() { runNode(0); }, dispenso::ForceQueuingTag());
    top.wait();
  }
  if (c.leavesDone != c.leaves)
    sim_fail("nested:leaf-lost", "%d of %d leaves ran", c.leavesDone, c.leaves);
}

// ---------------------------------------------------------------------------------------------
// C46: depth of dispenso's own nested inline execution is bounded by a constant
// ---------------------------------------------------------------------------------------------
static int g_depthSeen;
struct DepthScope {
  DepthScope() {
    int d = depthEnter();
    if (d > g_depthSeen)
      g_depthSeen = d;
  }
  ~DepthScope() {
    depthLeave();
  }
};

static const int kDepthBound = 96;

static int thenChain(dispenso::ThreadPool& pool, int n, bool readyFirst) {
  g_depthSeen = 0;
  if (pool.numThreads() == 0)
    readyFirst = true; // async() runs inline on a zero-thread pool: the antecedent cannot be held back
  SimLatch gate(1);
  // std::launch::async: force-queued, so the (possibly blocking) antecedent never runs on this thread
  dispenso::Future<int> first = dispenso::async(pool, std::launch::async, [&gate, readyFirst]() {
    if (!readyFirst)
      gate.wait();
    return 0;
  });
  if (readyFirst)
    first.wait();
  dispenso::Future<int> cur = first;
  for (int i = 0; i < n; ++i) {
    cur = cur.then(
        [](dispenso::Future<int>&& a) {
          DepthScope s;
          return a.get() + 1;
        },
        pool);
  }
  gate.countDown();
  int v = cur.get();
  if (v != n)
    sim_fail("depth:then-chain-wrong-value", "chain of %d produced %d", n, v);
  return g_depthSeen;
}

static int recursiveSchedule(dispenso::ThreadPool& pool, int n, int kind) {
  g_depthSeen = 0;
  // every task schedules the next one; on an overloaded pool the scheduling call may run it inline
  std::function<void(int)> step;
  dispenso::TaskSet* tsp = nullptr;
  dispenso::ConcurrentTaskSet* ctsp = nullptr;
  dispenso::TaskSet ts(pool, 1);
  dispenso::ConcurrentTaskSet cts(pool, 1);
  tsp = &ts;
  ctsp = &cts;
  int done = 0;
  SimLatch finished(1);
  step = [&](int left) {
    DepthScope s;
    done++;
    if (left <= 0) {
      finished.countDown();
      return;
    }
    if (kind == 0)
      pool.schedule([&step, left]() { step(left - 1); });
    else
      ctsp->schedule([&step, left]() { step(left - 1); });
  };
  // pre-load the pool so that it counts as overloaded
  SimLatch gate(1);
  int blockers = (int)pool.numThreads();
  SimLatch blockersDone(blockers);
  for (int i = 0; i < blockers; ++i)
    pool.schedule(
        [&gate, &blockersDone]() {
          gate.wait();
          blockersDone.countDown();
        },
        dispenso::ForceQueuingTag());
  for (int i = 0; i < 8; ++i)
    pool.schedule([]() {}, dispenso::ForceQueuingTag());
  step(n);
  gate.countDown();
  cts.wait();
  ts.wait();
  // the chain references locals of this function: do not leave before its last link has run
  finished.wait();
  blockersDone.wait();
  cts.wait();
  (void)tsp;
  return g_depthSeen;
}

static int serialPipeline(dispenso::ThreadPool& pool, int n) {
  g_depthSeen = 0;
  int next = 0;
  int sunk = 0;
  dispenso::pipeline(
      pool,
      [&]() -> dispenso::OpResult<int> {
        if (next >= n)
          return {};
        return next++;
      },
      [](int v) {
        DepthScope s;
        return v + 1;
      },
      [&](int) {
        DepthScope s;
        sunk++;
      });
  if (sunk != n)
    sim_fail("depth:pipeline-lost-items", "%d of %d items reached the sink", sunk, n);
  return g_depthSeen;
}

static int graphChain(dispenso::ThreadPool& pool, int n, int exec) {
  g_depthSeen = 0;
  dispenso::Graph graph;
  dispenso::Node* prev = nullptr;
  int ran = 0;
  for (int i = 0; i < n; ++i) {
    dispenso::Node& node = graph.addNode([&ran]() {
      DepthScope s;
      ran++;
    });
    if (prev)
      node.dependsOn(*prev);
    prev = &node;
  }
  setAllNodesIncomplete(graph);
  if (exec == 0) {
    dispenso::ConcurrentTaskSet ts(pool);
    dispenso::ConcurrentTaskSetExecutor e;
    e(ts, graph, true);
  } else {
    dispenso::TaskSet ts(pool);
    dispenso::ParallelForExecutor e;
    e(ts, graph);
  }
  if (ran != n)
    sim_fail("depth:graph-chain-lost-nodes", "%d of %d nodes ran", ran, n);
  return g_depthSeen;
}

static void wlDepth() {
  int nThreads = range(0, 3);
  int what = (int)pick(6);
  // a zero-thread pool has nobody but the caller to run a task, so user-level recursion through
  // schedule() necessarily nests there; the recursive-scheduling shapes need at least one worker
  if ((what == 2 || what == 3) && nThreads == 0)
    nThreads = 1;
  static const int sizes[] = {200, 800};
  int n = oneOf(sizes);
  sim_note("pool", nThreads);
  sim_note("what", what);
  sim_note("n", n);
  dispenso::ThreadPool pool((size_t)nThreads, (size_t)(chance(1, 2) ? 1 : 32));
  int d1 = 0, d4 = 0;
  const char* name = "?";
  switch (what) {
    case 0:
      name = "then-chain-registered-before-ready";
      d1 = thenChain(pool, n, false);
      d4 = thenChain(pool, 4 * n, false);
      break;
    case 1:
      name = "then-chain-registered-after-ready";
      d1 = thenChain(pool, n, true);
      d4 = thenChain(pool, 4 * n, true);
      break;
    case 2:
      name = "recursive-ThreadPool-schedule";
      d1 = recursiveSchedule(pool, n, 0);
      d4 = recursiveSchedule(pool, 4 * n, 0);
      break;
    case 3:
      name = "recursive-ConcurrentTaskSet-schedule";
      d1 = recursiveSchedule(pool, n, 1);
      d4 = recursiveSchedule(pool, 4 * n, 1);
      break;
    case 4:
      name = "serial-pipeline";
      d1 = serialPipeline(pool, n);
      d4 = serialPipeline(pool, 4 * n);
      break;
    default:
      name = "graph-chain";
      d1 = graphChain(pool, n, (int)pick(2));
      d4 = graphChain(pool, 4 * n, (int)pick(2));
      break;
  }
  sim_note("d1", d1);
  sim_note("d4", d4);
  if (d4 > kDepthBound || d1 > kDepthBound) {
    char cls[160];
    snprintf(cls, sizeof cls, "depth:%s:pool%s", name, nThreads ? "N" : "0");
    sim_fail(cls, "%s: %d harness bodies nested on one stack for N=%d and %d for 4N (bound %d)", name, d1, n, d4, kDepthBound);
  }
}

} // namespace

HX_WORKLOAD("C06", "nested", wlNested, SF_ALL | SF_TSO, 8000000, 8000000, 1);
HX_WORKLOAD("C46", "depth", wlDepth, SF_DELAY_ONLY, 30000000, 10000000, 1);
