// Workload family `graph`: graph executors (C30) and partial re-evaluation (C31).
//
// Protocol used (it is the one the library's own tests use): setAllNodesIncomplete() before the
// first evaluation; after structural changes or setIncomplete() calls, ForwardPropagator and then
// an executor.
#include <dispenso/graph.h>
#include <dispenso/graph_executor.h>

#include <algorithm>
#include <functional>
#include <memory>
#include <set>
#include <thread>
#include <vector>

#include "hx.h"

using namespace hx;

namespace {

struct NodeRec {
  bool alive = true;
  int sub = -1;             // -1 root graph, else subgraph index
  std::vector<int> preds;   // ids this node depends on
  std::vector<int> bipreds; // subset of preds declared with biPropDependsOn
  void* ptr = nullptr;      // Node* / BiPropNode*
  int runsThisRound = 0;
  bool running = false;
  bool modelComplete = false;
  char cell = 0; // C10: the node's output; written by its body, read by dependents and by the caller afterwards
};

struct GRun {
  std::vector<NodeRec> nodes;
  int round = 0;
  const char* exec = "?";
  const char* phase = "?";
};
static GRun* gg;

static void nodeBody(int id) {
  GRun& g = *gg;
  NodeRec& n = g.nodes[(size_t)id];
  char cls[160];
  if (n.runsThisRound++ > 0) {
    snprintf(cls, sizeof cls, "%s:%s:node-ran-twice", g.exec, g.phase);
    sim_fail(cls, "node %d ran twice in one execution", id);
  }
  if (n.modelComplete) {
    snprintf(cls, sizeof cls, "%s:%s:complete-node-ran", g.exec, g.phase);
    sim_fail(cls, "node %d was complete but was executed", id);
  }
  for (int p : n.preds) {
    NodeRec& pr = g.nodes[(size_t)p];
    if (!pr.alive)
      continue;
    // an incomplete predecessor must have finished in this execution
    if (!pr.modelComplete && (pr.runsThisRound == 0 || pr.running)) {
      snprintf(cls, sizeof cls, "%s:%s:ran-before-predecessor", g.exec, g.phase);
      sim_fail(cls, "node %d started before its incomplete predecessor %d finished", id, p);
    }
    raceR(&pr.cell, "graph-node-output");
  }
  raceW(&n.cell, "graph-node-output");
  n.running = true;
  sim_event(9, id, g.round);
  sim_work(1 + (int)(sim_step() % 3));
  n.running = false;
}

template <class G>
struct Builder {
  using NodeT = typename G::NodeType;
  using SubT = typename G::SubgraphType;
  G graph;
  std::vector<SubT*> subs;
  bool biprop;

  NodeT& addNode(int id, int sub) {
    auto fn = [id]() { nodeBody(id); };
    NodeT& n = sub < 0 ? graph.addNode(fn) : subs[(size_t)sub]->addNode(fn);
    gg->nodes[(size_t)id].ptr = &n;
    gg->nodes[(size_t)id].sub = sub;
    return n;
  }
  NodeT& node(int id) {
    return *static_cast<NodeT*>(gg->nodes[(size_t)id].ptr);
  }
};

static void depends(dispenso::Node& v, dispenso::Node& u, bool) {
  v.dependsOn(u);
}
static void depends(dispenso::BiPropNode& v, dispenso::BiPropNode& u, bool bi) {
  if (bi)
    v.biPropDependsOn(u);
  else
    v.dependsOn(u);
}

template <class G>
static void addEdges(Builder<G>& b, int v, int edgePermille, int biPermille) {
  GRun& g = *gg;
  for (int u = 0; u < v; ++u) {
    if (!g.nodes[(size_t)u].alive)
      continue;
    if (!chance((uint32_t)edgePermille, 1000))
      continue;
    bool bi = b.biprop && chance((uint32_t)biPermille, 1000);
    depends(b.node(v), b.node(u), bi);
    g.nodes[(size_t)v].preds.push_back(u);
    if (bi)
      g.nodes[(size_t)v].bipreds.push_back(u);
  }
}

template <class G>
static void execute(Builder<G>& b, dispenso::ThreadPool& pool, int which, const char* phase) {
  GRun& g = *gg;
  g.round++;
  g.phase = phase;
  for (auto& n : g.nodes) {
    n.runsThisRound = 0;
    n.running = false;
    raceW(&n.cell, "graph-node-output"); // the caller prepares the nodes' inputs between executions
  }
  switch (which) {
    case 0: {
      g.exec = "single-thread";
      dispenso::SingleThreadExecutor e;
      e(b.graph);
      break;
    }
    case 1: {
      g.exec = "parallel_for-TaskSet";
      dispenso::TaskSet ts(pool);
      dispenso::ParallelForExecutor e;
      e(ts, b.graph);
      break;
    }
    case 2: {
      g.exec = "parallel_for-CTS";
      dispenso::ConcurrentTaskSet ts(pool);
      dispenso::ParallelForExecutor e;
      e(ts, b.graph);
      break;
    }
    default: {
      g.exec = "concurrent-task-set";
      dispenso::ConcurrentTaskSet ts(pool);
      dispenso::ConcurrentTaskSetExecutor e;
      e(ts, b.graph, true);
      break;
    }
  }
}

// after an execution: the expected set ran exactly once, nothing else ran, everything alive is complete
template <class G>
static void checkAfter(Builder<G>& b, const std::vector<bool>& expectRun) {
  GRun& g = *gg;
  char cls[160];
  for (size_t i = 0; i < g.nodes.size(); ++i) {
    NodeRec& n = g.nodes[i];
    if (!n.alive)
      continue;
    raceR(&n.cell, "graph-node-output");
    int want = expectRun[i] ? 1 : 0;
    if (n.runsThisRound != want) {
      snprintf(cls, sizeof cls, "%s:%s:%s", g.exec, g.phase, n.runsThisRound > want ? "extra-node-ran" : "node-not-run");
      sim_fail(cls, "node %zu ran %d times, expected %d", i, n.runsThisRound, want);
    }
    if (n.running) {
      snprintf(cls, sizeof cls, "%s:%s:node-running-after-return", g.exec, g.phase);
      sim_fail(cls, "node %zu still running after the executor returned", i);
    }
    if (!b.node((int)i).isCompleted()) {
      snprintf(cls, sizeof cls, "%s:%s:node-not-complete-after-execution", g.exec, g.phase);
      sim_fail(cls, "node %zu is not complete after execution", i);
    }
    n.modelComplete = true;
  }
}

// reference: forward closure of `marked` plus every member of a bidirectional-propagation set
// (connected component of the biProp edges) that intersects the closure
static std::vector<bool> referenceClosure(const std::vector<bool>& marked) {
  GRun& g = *gg;
  size_t N = g.nodes.size();
  std::vector<bool> closure(N, false);
  std::vector<std::vector<int>> dependents(N);
  for (size_t v = 0; v < N; ++v)
    if (g.nodes[v].alive)
      for (int p : g.nodes[v].preds)
        if (g.nodes[(size_t)p].alive)
          dependents[(size_t)p].push_back((int)v);
  std::vector<int> stack;
  for (size_t i = 0; i < N; ++i)
    if (marked[i] && g.nodes[i].alive) {
      closure[i] = true;
      stack.push_back((int)i);
    }
  while (!stack.empty()) {
    int x = stack.back();
    stack.pop_back();
    for (int d : dependents[(size_t)x])
      if (!closure[(size_t)d]) {
        closure[(size_t)d] = true;
        stack.push_back(d);
      }
  }
  std::vector<int> comp(N);
  std::vector<bool> inSet(N, false);
  for (size_t i = 0; i < N; ++i)
    comp[i] = (int)i;
  std::function<int(int)> find = [&](int x) { return comp[(size_t)x] == x ? x : comp[(size_t)x] = find(comp[(size_t)x]); };
  for (size_t v = 0; v < N; ++v) {
    if (!g.nodes[v].alive)
      continue;
    for (int p : g.nodes[v].bipreds) {
      if (!g.nodes[(size_t)p].alive)
        continue;
      comp[(size_t)find((int)v)] = find(p);
      inSet[v] = inSet[(size_t)p] = true;
    }
  }
  std::set<int> hit;
  for (size_t i = 0; i < N; ++i)
    if (closure[i] && inSet[i])
      hit.insert(find((int)i));
  std::vector<bool> expect = closure;
  for (size_t i = 0; i < N; ++i)
    if (g.nodes[i].alive && inSet[i] && hit.count(find((int)i)))
      expect[i] = true;
  return expect;
}

template <class G>
static void propagateAndRun(Builder<G>& b, dispenso::ThreadPool& pool, const std::vector<bool>& marked, const char* phase) {
  GRun& g = *gg;
  std::vector<bool> expect = referenceClosure(marked);
  for (size_t i = 0; i < g.nodes.size(); ++i)
    if (g.nodes[i].alive)
      g.nodes[i].modelComplete = !expect[i];
  if (getenv("HX_DEBUG")) {
    for (size_t i = 0; i < g.nodes.size(); ++i) {
      if (!g.nodes[i].alive)
        continue;
      fprintf(stderr, "node %zu sub=%d marked=%d expect=%d preds:", i, g.nodes[i].sub, (int)marked[i], (int)expect[i]);
      for (int p : g.nodes[i].preds)
        fprintf(stderr, " %d", p);
      fprintf(stderr, "  bipreds:");
      for (int p : g.nodes[i].bipreds)
        fprintf(stderr, " %d", p);
      fprintf(stderr, "\n");
    }
  }
  dispenso::ForwardPropagator fp;
  fp(b.graph);
  execute(b, pool, (int)pick(4), phase);
  checkAfter(b, expect);
}

// partial rounds judged against the library's own completion state (no closure model: which nodes
// *should* be incomplete is C31's business): whatever is incomplete when the executor starts runs
// exactly once after its incomplete predecessors, whatever is complete is left alone and stays
// complete, and everything is complete afterwards
template <class G>
static void partialRoundsByLibraryState(Builder<G>& b, dispenso::ThreadPool& pool) {
  GRun& g = *gg;
  int rounds = range(1, 3);
  for (int r = 0; r < rounds; ++r) {
    size_t N = g.nodes.size();
    int nMark = range(1, 3);
    for (int k = 0; k < nMark; ++k) {
      size_t i = (size_t)pick((uint32_t)N);
      if (g.nodes[i].alive)
        b.node((int)i).setIncomplete();
    }
    dispenso::ForwardPropagator fp;
    fp(b.graph);
    std::vector<bool> expect(N, false);
    for (size_t i = 0; i < N; ++i)
      if (g.nodes[i].alive) {
        expect[i] = !b.node((int)i).isCompleted();
        g.nodes[i].modelComplete = !expect[i];
      }
    execute(b, pool, (int)pick(4), b.biprop ? "partial-by-library-state-biprop" : "partial-by-library-state");
    checkAfter(b, expect);
  }
}

template <class G>
static void graphProgram(int focus) {
  GRun g;
  gg = &g;
  Builder<G> b;
  b.biprop = std::is_same<typename G::NodeType, dispenso::BiPropNode>::value;
  int nThreads = range(0, 4);
  int nNodes = range(1, 24);
  int nSubs = range(0, 3);
  static const int edgeRates[] = {150, 50, 400};
  int edgePermille = oneOf(edgeRates);
  int biPermille = 350;
  int which = (int)pick(4);
  sim_note("pool", nThreads);
  sim_note("nodes", nNodes);
  sim_note("subs", nSubs);
  sim_note("exec", which);
  sim_note("biprop", b.biprop);
  dispenso::ThreadPool pool((size_t)nThreads, (size_t)(chance(1, 3) ? 1 : 32));
  for (int s = 0; s < nSubs; ++s)
    b.subs.push_back(&b.graph.addSubgraph());
  g.nodes.resize((size_t)nNodes);
  for (int v = 0; v < nNodes; ++v) {
    int sub = nSubs ? (int)pick((uint32_t)nSubs + 1) - 1 : -1;
    b.addNode(v, sub);
    addEdges(b, v, edgePermille, biPermille);
  }
  setAllNodesIncomplete(b.graph);
  std::vector<bool> all(g.nodes.size(), true);
  execute(b, pool, which, "first-execution");
  checkAfter(b, all);
  // executing a complete graph runs nothing
  std::vector<bool> none(g.nodes.size(), false);
  execute(b, pool, (int)pick(4), "re-execution-of-complete-graph");
  checkAfter(b, none);

  if (focus == 30) {
    int nMods = range(0, 2);
    for (int m = 0; m < nMods && nSubs > 0; ++m) {
      // clear one subgraph and rebuild it with new nodes wired across subgraphs
      int s = (int)pick((uint32_t)nSubs);
      b.subs[(size_t)s]->clear();
      for (auto& n : g.nodes)
        if (n.alive && n.sub == s)
          n.alive = false;
      for (auto& n : g.nodes) {
        std::vector<int> keep, keepBi;
        for (int p : n.preds)
          if (g.nodes[(size_t)p].alive)
            keep.push_back(p);
        for (int p : n.bipreds)
          if (g.nodes[(size_t)p].alive)
            keepBi.push_back(p);
        n.preds.swap(keep);
        n.bipreds.swap(keepBi);
      }
      int add = range(0, 6);
      size_t firstNew = g.nodes.size();
      for (int k = 0; k < add; ++k) {
        int id = (int)g.nodes.size();
        g.nodes.emplace_back();
        b.addNode(id, s);
        addEdges(b, id, edgePermille, biPermille);
      }
      // one surviving node of another subgraph may depend on the last new node (legal iff that
      // survivor is not an ancestor of it)
      if (g.nodes.size() > firstNew) {
        size_t x = g.nodes.size() - 1;
        std::set<int> anc;
        std::vector<int> stack(g.nodes[x].preds);
        while (!stack.empty()) {
          int y = stack.back();
          stack.pop_back();
          if (!anc.insert(y).second)
            continue;
          for (int p : g.nodes[(size_t)y].preds)
            stack.push_back(p);
        }
        for (size_t d = 0; d < firstNew; ++d) {
          NodeRec& dn = g.nodes[d];
          if (dn.alive && dn.sub != s && !anc.count((int)d) && chance(1, 6)) {
            depends(b.node((int)d), b.node((int)x), false);
            dn.preds.push_back((int)x);
            break;
          }
        }
      }
      std::vector<bool> marked(g.nodes.size(), false);
      for (size_t x = firstNew; x < g.nodes.size(); ++x)
        marked[x] = true;
      // (With BiProp graphs a cleared node leaves its former group members grouped; what the group
      // "should" be after the deletion is not defined by the property, so the exact-closure oracle
      // is applied to rebuilds of plain graphs only; BiProp rebuilds are checked by full evaluation.)
      if (!b.biprop && chance(1, 2)) {
        propagateAndRun(b, pool, marked, "after-subgraph-rebuild-propagated");
      } else {
        setAllNodesIncomplete(b.graph);
        for (auto& n : g.nodes)
          n.modelComplete = false;
        std::vector<bool> allAlive(g.nodes.size(), true);
        execute(b, pool, (int)pick(4), "after-subgraph-rebuild-full");
        checkAfter(b, allAlive);
      }
    }
    if (chance(2, 3))
      partialRoundsByLibraryState(b, pool);
  } else {
    int rounds = range(1, 3);
    for (int r = 0; r < rounds; ++r) {
      size_t N = g.nodes.size();
      std::vector<bool> marked(N, false);
      int nMark = range(0, 3);
      for (int k = 0; k < nMark; ++k)
        marked[(size_t)pick((uint32_t)N)] = true;
      for (size_t i = 0; i < N; ++i)
        if (marked[i])
          b.node((int)i).setIncomplete();
      propagateAndRun(b, pool, marked, b.biprop ? "after-ForwardPropagator-biprop" : "after-ForwardPropagator");
    }
  }
  // full re-evaluation
  setAllNodesIncomplete(b.graph);
  for (auto& n : g.nodes)
    n.modelComplete = false;
  std::vector<bool> allAlive(g.nodes.size(), true);
  execute(b, pool, (int)pick(4), "after-setAllNodesIncomplete");
  checkAfter(b, allAlive);
}

static void wlGraph30() {
  if (chance(1, 2))
    graphProgram<dispenso::Graph>(30);
  else
    graphProgram<dispenso::BiPropGraph>(30);
}
static void wlGraph31() {
  if (chance(1, 3))
    graphProgram<dispenso::Graph>(31);
  else
    graphProgram<dispenso::BiPropGraph>(31);
}

// A bidirectional group {T, G_1..G_k} whose members share ordinary dependents D_j outside the group: when
// T is marked, the whole group is re-run but the D_j stay complete ("dependents of pulled-in members are
// not re-run"), so each complete D_j has several incomplete predecessors finishing concurrently.  Whatever
// bookkeeping the executors do on a complete node for each finishing predecessor must leave it complete.
static void wlGraphBiFanIn() {
  GRun g;
  gg = &g;
  Builder<dispenso::BiPropGraph> b;
  b.biprop = true;
  int nThreads = range(1, 4);
  int k = range(2, 4);
  int nD = range(1, 3);
  bool useSub = chance(1, 2);
  sim_note("pool", nThreads);
  sim_note("members", k);
  sim_note("dependents", nD);
  dispenso::ThreadPool pool((size_t)nThreads);
  if (useSub) {
    b.subs.push_back(&b.graph.addSubgraph());
    b.subs.push_back(&b.graph.addSubgraph());
  }
  // ids: 0..k-1 = G_i, k = T, k+1.. = D_j
  int total = k + 1 + nD;
  g.nodes.resize((size_t)total);
  for (int i = 0; i < k; ++i)
    b.addNode(i, useSub ? 0 : -1);
  b.addNode(k, useSub ? 0 : -1);
  for (int i = 0; i < k; ++i) {
    depends(b.node(k), b.node(i), true);
    g.nodes[(size_t)k].preds.push_back(i);
    g.nodes[(size_t)k].bipreds.push_back(i);
  }
  for (int j = 0; j < nD; ++j) {
    int id = k + 1 + j;
    b.addNode(id, useSub ? 1 : -1);
    int fan = range(2, k);
    for (int i = 0; i < fan; ++i) {
      depends(b.node(id), b.node(i), false);
      g.nodes[(size_t)id].preds.push_back(i);
    }
  }
  std::vector<bool> all((size_t)total, true);
  setAllNodesIncomplete(b.graph);
  execute(b, pool, (int)pick(4), "after-setAllNodesIncomplete");
  checkAfter(b, all);
  int rounds = range(1, 4);
  for (int r = 0; r < rounds; ++r) {
    b.node(k).setIncomplete();
    dispenso::ForwardPropagator fp;
    fp(b.graph);
    std::vector<bool> expect((size_t)total, false);
    for (int i = 0; i < total; ++i) {
      expect[(size_t)i] = !b.node(i).isCompleted();
      g.nodes[(size_t)i].modelComplete = !expect[(size_t)i];
    }
    // the reference: the group re-runs, the shared dependents do not
    for (int i = 0; i <= k; ++i)
      if (!expect[(size_t)i])
        sim_fail("biprop-fanin:group-member-not-marked", "group member %d was not made incomplete by propagation from T", i);
    for (int j = 0; j < nD; ++j)
      if (expect[(size_t)(k + 1 + j)])
        sim_fail("biprop-fanin:dependent-marked", "dependent %d of pulled-in members was made incomplete", k + 1 + j);
    execute(b, pool, 1 + (int)pick(3), "biprop-fanin");
    checkAfter(b, expect);
  }
}

} // namespace

HX_WORKLOAD("C30", "graph", wlGraph30, SF_ALL | SF_TSO, 6000000, 6000000, 1);
HX_WORKLOAD("C31", "graph-partial", wlGraph31, SF_ALL | SF_TSO, 6000000, 6000000, 1);
HX_WORKLOAD("C30", "graph-biprop-fanin", wlGraphBiFanIn, SF_ALL | SF_TSO, 3000000, 3000000, 1);
