// Workload family `alloc`/`tid`: SmallBufferAllocator (C41), PoolAllocator (C42), threadId (C45).
#include <dispenso/detail/small_buffer_allocator_impl.h>
#include <dispenso/pool_allocator.h>
#include <dispenso/small_buffer_allocator.h>
#include <dispenso/thread_id.h>

#include <map>
#include <memory>
#include <set>
#include <thread>
#include <vector>

#include "hx.h"

using namespace hx;

namespace {

// ---------------------------------------------------------------------------------------------
// C41 SmallBufferAllocator
// ---------------------------------------------------------------------------------------------
struct LockMon {
  int holder = -1; // simulated thread inside the backing-store critical section
  const char* violation = nullptr;
  char msg[160];
};
static LockMon* g_mon;

// kind: SP_RMW fetch_add (before==0 -> acquired), SP_CAS successful CAS, SP_STORE release
static void lockWatch(int kind, uint32_t before, uint32_t after, int tid) {
  LockMon& m = *g_mon;
  if (m.violation)
    return;
  bool acquire = (kind == SP_RMW && before == 0) || (kind == SP_CAS && after != 0);
  if (acquire) {
    if (kind == SP_CAS && before != 0) {
      m.violation = "backing-store-lock:acquired-while-held";
      snprintf(m.msg, sizeof m.msg, "thread %d's compare-exchange acquired the lock word while it was %u (held by thread %d)", tid,
               before, m.holder);
      return;
    }
    if (m.holder >= 0) {
      m.violation = "backing-store-lock:two-holders";
      snprintf(m.msg, sizeof m.msg, "thread %d admitted while thread %d is inside", tid, m.holder);
      return;
    }
    m.holder = tid;
  } else if (kind == SP_STORE && after == 0) {
    if (m.holder != tid) {
      m.violation = "backing-store-lock:released-by-non-holder";
      snprintf(m.msg, sizeof m.msg, "thread %d stored 0 to the lock word held by thread %d", tid, m.holder);
      return;
    }
    m.holder = -1;
  }
}

template <size_t N>
static void smallBufferRun() {
  char cls[128];
  LockMon mon;
  g_mon = &mon;
  auto& globals = dispenso::detail::getSmallBufferGlobals<N>();
  sim_watch32(&globals.backingStoreLock, lockWatch);
  int nThreads = range(1, 4);
  int opsEach = range(4, 60);
  bool diag = chance(2, 3);
  sim_note("size", (int64_t)N);
  sim_note("threads", nThreads);
  sim_note("diag", diag);
  std::set<char*>& live = immortal<std::set<char*>>();
  std::vector<char*>& handoff = immortal<std::vector<char*>>(); // blocks freed by another thread
  auto got = [&](char* p) {
    if (!p || ((uintptr_t)p % N) != 0) {
      snprintf(cls, sizeof cls, "small-buffer%zu:misaligned", N);
      sim_fail(cls, "allocSmallBuffer<%zu> returned %p", N, (void*)p);
    }
    if (!live.insert(p).second) {
      snprintf(cls, sizeof cls, "small-buffer%zu:block-live-twice", N);
      sim_fail(cls, "block %p handed out while still live", (void*)p);
    }
    auto it = live.find(p);
    auto nx = std::next(it);
    if ((nx != live.end() && *nx < p + N) || (it != live.begin() && *std::prev(it) + N > p)) {
      snprintf(cls, sizeof cls, "small-buffer%zu:blocks-overlap", N);
      sim_fail(cls, "block %p overlaps a neighbouring live block", (void*)p);
    }
    memset(p, (int)((uintptr_t)p >> 4) & 0xff, N);
    raceW(p, "small-buffer-block"); // the new owner initialises the block
  };
  auto release = [&](char* p) {
    unsigned char want = (unsigned char)(((uintptr_t)p >> 4) & 0xff);
    for (size_t i = 0; i < N; ++i)
      if ((unsigned char)p[i] != want) {
        snprintf(cls, sizeof cls, "small-buffer%zu:contents-clobbered", N);
        sim_fail(cls, "block %p byte %zu changed while live", (void*)p, i);
      }
    live.erase(p);
    raceW(p, "small-buffer-block"); // last use by the freeing thread
    dispenso::deallocSmallBuffer<N>(p);
  };
  int running = nThreads;
  auto worker = [&](int ops, bool exitEarly) {
    std::vector<char*> mine;
    for (int i = 0; i < ops; ++i) {
      switch (sim_step() % 5) {
        case 0:
        case 1: {
          char* p = dispenso::allocSmallBuffer<N>();
          got(p);
          mine.push_back(p);
          break;
        }
        case 2:
          if (!mine.empty()) {
            release(mine.back());
            mine.pop_back();
          }
          break;
        case 3:
          if (!mine.empty()) {
            handoff.push_back(mine.back()); // somebody else frees it
            sim_race_release(&handoff);     // (the harness hand-off itself is synchronised)
            mine.pop_back();
          }
          break;
        default:
          if (!handoff.empty()) {
            char* p = handoff.back();
            handoff.pop_back();
            sim_race_acquire(&handoff);
            release(p);
          }
          break;
      }
      if (exitEarly && i == ops / 2)
        break;
    }
    // leftovers go to the hand-off list; the thread exits (its thread-local cache is recycled)
    for (char* p : mine)
      handoff.push_back(p);
    sim_race_release(&handoff);
    running--;
  };
  std::vector<std::thread> threads;
  for (int t = 0; t < nThreads; ++t)
    threads.emplace_back(worker, opsEach, chance(1, 3));
  if (diag) {
    threads.emplace_back([&]() {
      for (int i = 0; i < 40 && running > 0; ++i) {
        size_t bytes = dispenso::approxBytesAllocatedSmallBuffer<N>();
        (void)bytes;
        sim_work(1 + (int)(sim_step() % 7));
      }
    });
  }
  for (auto& t : threads)
    t.join();
  // a second generation of threads reuses what the first one recycled at exit
  std::thread late(worker, opsEach / 2 + 1, false);
  running++;
  late.join();
  for (char* p : handoff)
    release(p);
  handoff.clear();
  sim_watch32(nullptr, nullptr);
  if (mon.violation) {
    snprintf(cls, sizeof cls, "small-buffer%zu:%s", N, mon.violation);
    sim_fail(cls, "%s", mon.msg);
  }
  if (!live.empty())
    sim_fail("harness:leftover", "harness bookkeeping: %zu blocks still live", live.size());
}

static void wlSmallBuffer() {
  switch (pick(4)) {
    case 0:
      smallBufferRun<8>();
      break;
    case 1:
      smallBufferRun<64>();
      break;
    case 2:
      smallBufferRun<256>();
      break;
    default:
      smallBufferRun<16>();
      break;
  }
}

// ---------------------------------------------------------------------------------------------
// C42 PoolAllocator
// ---------------------------------------------------------------------------------------------
struct SlabLog {
  std::map<char*, size_t> liveSlabs; // base -> size
  int allocCalls = 0;
  int freed = 0;
  int doubleFree = 0;
  int unknownFree = 0;
};

template <bool kThreadSafe>
static void poolAllocRun() {
  char cls[128];
  const char* name = kThreadSafe ? "PoolAllocator" : "NoLockPoolAllocator";
  SlabLog& log = immortal<SlabLog>();
  static const size_t chunkSizes[] = {16, 64, 24};
  size_t chunk = oneOf(chunkSizes);
  // slab sizes that are exact multiples of the chunk size, and ones that leave a remainder (legal: the
  // tail of the slab is simply not used)
  size_t slab = chunk * (size_t)range(1, 6) + (chance(1, 3) ? (size_t)range(1, (int)chunk - 1) : 0);
  int nThreads = kThreadSafe ? range(1, 4) : 1;
  sim_note("chunk", (int64_t)chunk);
  sim_note("slab", (int64_t)slab);
  sim_note("threads", nThreads);
  std::set<char*>& live = immortal<std::set<char*>>();
  {
    dispenso::PoolAllocatorT<kThreadSafe> pool(
        chunk, slab,
        [&log](size_t n) {
          void* p = malloc(n);
          log.liveSlabs[(char*)p] = n;
          log.allocCalls++;
          return p;
        },
        [&log](void* p) {
          auto it = log.liveSlabs.find((char*)p);
          if (it == log.liveSlabs.end())
            log.unknownFree++;
          else {
            log.liveSlabs.erase(it);
            log.freed++;
          }
          free(p);
        });
    auto got = [&](char* p) {
      auto it = log.liveSlabs.upper_bound(p);
      bool inside = false;
      if (it != log.liveSlabs.begin()) {
        --it;
        inside = p >= it->first && p + chunk <= it->first + it->second && ((size_t)(p - it->first) % chunk) == 0;
      }
      if (!inside) {
        snprintf(cls, sizeof cls, "%s:chunk-outside-slab", name);
        sim_fail(cls, "alloc() returned %p which is not a chunk of a live slab", (void*)p);
      }
      if (!live.insert(p).second) {
        snprintf(cls, sizeof cls, "%s:chunk-live-twice", name);
        sim_fail(cls, "chunk %p handed out twice without dealloc", (void*)p);
      }
      raceW(p, "pool-chunk"); // the new owner initialises the chunk
    };
    int rounds = range(1, 3);
    for (int r = 0; r < rounds; ++r) {
      std::vector<std::thread> threads;
      for (int t = 0; t < nThreads; ++t) {
        int ops = range(2, 30);
        threads.emplace_back([&, ops]() {
          std::vector<char*> mine;
          for (int i = 0; i < ops; ++i) {
            if (sim_step() % 3 != 0 || mine.empty()) {
              char* p = pool.alloc();
              got(p);
              mine.push_back(p);
            } else {
              live.erase(mine.back());
              raceW(mine.back(), "pool-chunk");
              pool.dealloc(mine.back());
              mine.pop_back();
            }
          }
          if (sim_step() & 1)
            for (char* p : mine) {
              live.erase(p);
              raceW(p, "pool-chunk");
              pool.dealloc(p);
            }
        });
      }
      for (auto& t : threads)
        t.join();
      // quiescent: clear() recycles every slab; no allocFunc call until the slabs are exhausted
      live.clear();
      pool.clear();
      int before = log.allocCalls;
      size_t capacity = pool.totalChunkCapacity();
      std::vector<char*> all;
      for (size_t i = 0; i < capacity; ++i) {
        char* p = pool.alloc();
        got(p);
        all.push_back(p);
      }
      if (log.allocCalls != before) {
        snprintf(cls, sizeof cls, "%s:allocFunc-before-slabs-exhausted", name);
        sim_fail(cls, "%d allocFunc call(s) while re-using %zu chunks of existing slabs after clear()", log.allocCalls - before,
                 capacity);
      }
      for (char* p : all) {
        live.erase(p);
        pool.dealloc(p);
      }
    }
  }
  if (!log.liveSlabs.empty() || log.unknownFree) {
    snprintf(cls, sizeof cls, "%s:slab-release-imbalance", name);
    sim_fail(cls, "%zu slabs not released, %d unknown frees (allocated %d, freed %d)", log.liveSlabs.size(), log.unknownFree,
             log.allocCalls, log.freed);
  }
}
static void wlPoolAlloc() {
  if (chance(2, 3))
    poolAllocRun<true>();
  else
    poolAllocRun<false>();
}

// ---------------------------------------------------------------------------------------------
// C45 threadId
// ---------------------------------------------------------------------------------------------
static void wlThreadId() {
  int nThreads = chance(1, 8) ? range(30, 64) : range(1, 12);
  int generations = range(1, 3);
  sim_note("threads", nThreads);
  sim_note("generations", generations);
  std::set<uint64_t>& seen = immortal<std::set<uint64_t>>();
  seen.insert(dispenso::threadId());
  for (int g = 0; g < generations; ++g) {
    std::vector<std::thread> threads;
    for (int t = 0; t < nThreads; ++t) {
      threads.emplace_back([&]() {
        uint64_t first = dispenso::threadId();
        if (!seen.insert(first).second)
          sim_fail("threadId:duplicate", "threadId() %llu returned to two threads", (unsigned long long)first);
        for (int i = 0; i < 3; ++i) {
          sim_work(1);
          uint64_t again = dispenso::threadId();
          if (again != first)
            sim_fail("threadId:unstable", "threadId() changed from %llu to %llu within one thread", (unsigned long long)first,
                     (unsigned long long)again);
        }
      });
    }
    for (auto& t : threads)
      t.join();
  }
  if (dispenso::threadId() != *seen.begin() && seen.count(dispenso::threadId()) != 1)
    sim_fail("threadId:unstable", "main thread's id changed");
}

} // namespace

HX_WORKLOAD("C41", "small-buffer", wlSmallBuffer, SF_ALL, 3000000, 3000000, 1);
HX_WORKLOAD("C42", "pool-allocator", wlPoolAlloc, SF_ALL, 3000000, 3000000, 1);
HX_WORKLOAD("C45", "thread-id", wlThreadId, SF_ALL, 3000000, 3000000, 1);
