#!/bin/bash
# Runs every claimed check once at the quick tier (regenerates evidence/); prints one line per property.
cd "$(dirname "$0")"
for p in $(python3 -c "import json; print(' '.join(c['property_id'] for c in json.load(open('MANIFEST.json'))['checks']))"); do
  ./vcheck run $p --tier quick 2>&1 | grep -v "^KNOWN-FINDING\|^minimised\|^  class=" | cut -c1-300
done
