# Per-property runner configuration (see vcheck: DEFAULT).
FINE_HEAVY = ["fine-default", "fine-tiny", "sim-default", "fine-default", "fine-tiny", "sim-tiny", "fine-default", "fine-tiny"]
FINE_HALF = ["fine-default", "sim-tiny", "fine-tiny", "sim-default", "fine-default", "sim-tiny", "fine-tiny", "sim-default"]

PROPS = {
    # whole-library memory safety: every workload under the SIM+ASAN engine (two builds)
    "C11": {"variants": ["asan-default", "asan-nosba"], "prop_arg": "ALL", "quick_s": 40, "thorough_s": 900, "workers": 8},
    # data races: every workload with the happens-before detector on; fine-* see every plain access made by
    # dispenso code, sim-* only the accesses the harness declares for its payloads (but run ~3x as many seeds)
    "C10": {"variants": ["fine-default", "fine-tiny", "sim-default", "fine-default", "fine-tiny", "sim-tiny", "fine-default", "fine-tiny"],
            "prop_arg": "RACE", "quick_s": 40, "thorough_s": 900, "workers": 8},
    # workloads that opt into the TSO store-buffer fault get it in the fine variants only: give those most workers
    "C36": {"variants": FINE_HEAVY},
    "C07": {"variants": FINE_HALF}, "C09": {"variants": FINE_HALF}, "C21": {"variants": FINE_HALF}, "C22": {"variants": FINE_HALF},
    "C23": {"variants": FINE_HALF}, "C24": {"variants": FINE_HEAVY}, "C34": {"variants": FINE_HALF}, "C19": {"variants": FINE_HALF},
    "C46": {"quick_s": 25},
    "C03": {"quick_s": 25},
    "C29": {"quick_s": 25},
}
