#!/usr/bin/env python3
"""Regenerates MANIFEST.json from the table below (kept next to the checks so the two cannot drift)."""
import json
import os
import subprocess

ROOT = os.path.dirname(os.path.abspath(__file__))

NOT_APPLICABLE_PURE = {
    "C17": "pure integer arithmetic over (items, chunks, granularity): no schedule, clock, fault or interleaving for a simulator to own",
    "C32": "single-threaded differential against std::vector: a pure function of the operation sequence, nothing for a scheduler or fault injector to decide",
    "C38": "single-threaded container semantics and storage alignment: pure function of the operation sequence",
    "C39": "single-threaded construct/move/invoke/cleanup histories of one object: no concurrency, time or I/O involved",
    "C40": "single-threaded optional semantics: pure function of the operation sequence",
    "C43": "set algebra, string parsing and grouping are pure functions of their arguments",
    "C44": "bit-math helpers and alignment arithmetic are pure functions of their inputs",
}

# property -> (design section, one-line oracle text, extra trusted-base note)
CLAIMS = {}


def claim(pid, oracle, note=""):
    CLAIMS[pid] = (oracle, note)


claim("C01", "per-task exactly-once counters after ~ThreadPool, over seeded schedules/faults of producers, workers and the destructor drain")
claim("C02", "at every wait()/tryWait()==true/destructor return every task scheduled to the set (incl. self-scheduled, nested sets, futures bound to it) has finished exactly once")
claim("C04", "check-then-act oracle: no body starts inline in a schedule call invoked after cancel() returned, none starts queued whose executing thread's last atomic load is after cancel() returned; wait() reports cancellation")
claim("C05", "tagged exceptions: delivered at most once, a completing wait()/tryWait() throws while a captured exception is pending, waits always return")
claim("C16", "per-functor counters, last functor on the calling thread before return, all finished after wait(), recursive shapes")
claim("C21", "no waiter returns before the last decrement/notify was invoked; all waiters return (deadlock detector of the simulated futex)")
claim("C47", "a force-queued functor never starts on the submitting thread while its own schedule call is in progress (ThreadPool, TaskSet, ConcurrentTaskSet; single and bulk)")

TECHNIQUE = "deterministic simulation with fault injection: seeded scheduler over real threads parked at every atomic/futex/mutex point, modelled futex+clock, seeded fault kinds, history oracles, replayable minimised traces"


def main():
    props = [json.loads(l) for l in open(os.path.join(ROOT, "properties.jsonl"))]
    hooks = subprocess.run(["git", "-C", "/repo", "log", "--format=%H %s"], stdout=subprocess.PIPE, text=True).stdout
    hook_commits = [l.split()[0] for l in hooks.splitlines() if "verif hook" in l]
    checks = []
    na = []
    for p in props:
        pid = p["id"]
        if pid in CLAIMS:
            oracle, note = CLAIMS[pid]
            checks.append({
                "property_id": pid,
                "quick_cmd": "./vcheck run %s --tier quick" % pid,
                "thorough_cmd": "./vcheck run %s --tier thorough" % pid,
                "evidence_file": "evidence/%s.json" % pid,
                "replay_cmd_template": "./vcheck replay {path}",
                "engine": "simrt",
                "technique": TECHNIQUE,
                "level_claimed": {
                    "category": "exploration",
                    "text": "Seeded search over schedules, kernel wake choices and injected faults of the real dispenso code under the "
                            "simulator; oracle: " + oracle + ". Sampling, not enumeration: a clean batch is evidence, not proof.",
                    "design_ref": "DESIGN.md §7 " + pid,
                },
                "level_note": "Trusted: simrt's model of futex/mutex/cond/semaphore/thread lifecycle and its discrete-event clock; every "
                              "execution is sequentially consistent (one thread runs at a time); tuning variants default and tiny; "
                              "<= 8 simulated threads per run." + (" " + note if note else ""),
            })
        elif pid in NOT_APPLICABLE_PURE:
            na.append({"property_id": pid, "reason": NOT_APPLICABLE_PURE[pid]})
        else:
            na.append({"property_id": pid,
                       "reason": "not claimed yet: the simulation workload for this property has not been built/validated in this round (see DESIGN.md §7 for the plan)"})
    m = {
        "version": 1,
        "setup_cmd": "make -j16 all",
        "hooks": {
            "guard": "DISPENSO_VERIF_SIM",
            "enable": "the Makefile compiles /repo/dispenso/*.cpp and the harness with -DDISPENSO_VERIF_SIM (plus clang's tsan pass for atomics only)",
            "baseline_off_cmd": "cmake --build /repo/_build && ctest --test-dir /repo/_build -j8 --timeout 900",
            "source_commits": hook_commits,
            "add_only": True,
        },
        "engines": [{
            "name": "simrt",
            "path": "simrt/",
            "serves_properties": sorted(CLAIMS.keys()),
            "kind_free_text": "deterministic simulator: token scheduler over real threads, modelled kernel primitives, discrete-event clock, seeded fault injection, trace record/replay/minimisation",
        }],
        "checks": checks,
        "not_applicable": na,
        "notes": "All checks go through ./vcheck, which rebuilds build/<variant>/simcheck from /repo's working tree (make, header dependencies tracked) before running. Known findings: known_findings.txt.",
    }
    with open(os.path.join(ROOT, "MANIFEST.json"), "w") as f:
        json.dump(m, f, indent=1)
        f.write("\n")
    print("claimed", len(checks), "not_applicable", len(na))


if __name__ == "__main__":
    main()
