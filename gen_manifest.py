#!/usr/bin/env python3
"""Regenerates MANIFEST.json from the table below (kept next to the checks so the two cannot drift)."""
import json
import os
import subprocess

ROOT = os.path.dirname(os.path.abspath(__file__))

NOT_APPLICABLE_PURE = {
    "C17": "pure integer arithmetic over (items, chunks, granularity): no schedule, clock, fault or interleaving for a simulator to own",
    "C32": "single-threaded differential against std::vector: a pure function of the operation sequence, nothing for a scheduler or fault injector to decide",
    "C38": "single-threaded container semantics and storage alignment: pure function of the operation sequence",
    "C39": "single-threaded construct/move/invoke/cleanup histories of one object: no concurrency, time or I/O involved",
    "C40": "single-threaded optional semantics: pure function of the operation sequence",
    "C43": "set algebra, string parsing and grouping are pure functions of their arguments",
    "C44": "bit-math helpers and alignment arithmetic are pure functions of their inputs",
}

# property -> (design section, one-line oracle text, extra trusted-base note)
CLAIMS = {}


TECH = {}
LEVEL_NOTE = {}


def claim(pid, oracle, note="", technique=None, level_note=None):
    CLAIMS[pid] = (oracle, note)
    if technique:
        TECH[pid] = technique
    if level_note:
        LEVEL_NOTE[pid] = level_note


claim("C01", "per-task exactly-once counters after ~ThreadPool, over seeded schedules/faults of producers, workers and the destructor drain")
claim("C02", "at every wait()/tryWait()==true/destructor return every task scheduled to the set (incl. self-scheduled, nested sets, futures bound to it) has finished exactly once")
claim("C04", "check-then-act oracle: no body starts inline in a schedule call invoked after cancel() returned, none starts queued whose executing thread's last atomic load is after cancel() returned; wait() reports cancellation")
claim("C05", "tagged exceptions: delivered at most once, a completing wait()/tryWait() throws while a captured exception is pending, waits always return")
claim("C16", "per-functor counters, last functor on the calling thread before return, all finished after wait(), recursive shapes")
claim("C21", "no waiter returns before the last decrement/notify was invoked; all waiters return (deadlock detector of the simulated futex)")
claim("C47", "a force-queued functor never starts on the submitting thread while its own schedule call is in progress (ThreadPool, TaskSet, ConcurrentTaskSet; single and bulk)")
claim("C03", "exactly-once counters and wait()/resize() termination while an admin thread resizes (grow, shrink, 0) against direct, TaskSet (ring fast path), ConcurrentTaskSet and parallel_for producers")
claim("C06", "termination (deadlock detector + fair-tail step budget) of random acyclic nesting programs: task sets in tasks, Future::get in tasks, blocking parallel_for in tasks, pools of 0..4 threads")
claim("C07", "one submission into a fully parked pool, producer then blocks without helping: every body must start without any worker wait timeout expiring while nothing else can run (idle-jump oracle), over wake-choice/stall schedules")
claim("C08", "ThreadPool::verifWorkRemaining()==0 at quiescent points (all tasks finished, every worker parked) after histories of direct, task-set, ring, placed submissions and resizes", "Uses hook H2.")
claim("C09", "~ThreadPool / resize / setSignalingWake at an arbitrary point of the workers' loops return without an idle worker-timeout expiry in wake mode, and leave exactly the expected number of live worker threads")
claim("C10", "no pair of conflicting accesses without a happens-before path: every plain access made by dispenso/moodycamel code "
      "(fine variants) and every access the harness declares for its payload objects (task inputs/outputs, future results, pipeline "
      "items, container elements, data guarded by RWLock/Latch/CompletionEvent, allocator blocks) is checked by a vector-clock "
      "detector that grants only the edges of the declared memory orders (release/acquire/seq_cst, release sequences, fences), "
      "locks, semaphores, once/static-init, thread create/join and dispenso's own TSAN annotations; every workload of every other "
      "property is the program space",
      technique="deterministic simulation with fault injection: every workload runs under the seeded scheduler (real threads parked at "
                "every atomic/plain-access/futex/mutex point) with an order-aware vector-clock happens-before detector inside the "
                "simulator deciding, for the explored execution, whether two conflicting accesses are ordered by the program",
      level_note="Trusted: the detector's encoding of the C++ happens-before rules (simrt/race.cpp; self-tests race-ordered / "
                 "race-unordered), simrt's kernel model for lock/thread edges. Each explored execution is sequentially consistent "
                 "(a load reads the latest store): races that need a load to read an older store are not explored. Plain accesses "
                 "inside std:: templates instantiated by dispenso are not attributed to dispenso. <= 8 simulated threads per run.")
claim("C11", "no AddressSanitizer / UndefinedBehaviorSanitizer report, no crash and no LeakSanitizer report at the end of any simulated "
      "run of any workload (all properties' workloads in memory-only mode: throwing bodies, cancellation, resize, shutdown, container "
      "growth and copies), in two sanitizer builds (with and without the small-buffer allocator, which otherwise recycles blocks and "
      "hides use-after-free)",
      technique="deterministic simulation with fault injection (SIM+ASAN engine): ASan+UBSan+LSan builds of dispenso and the harness run "
                "under the same seeded scheduler, with pre-emption at basic-block granularity (coverage-guard quantum) and at every "
                "blocking call; sanitizer reports are the oracle, classified by report kind and innermost dispenso frame",
      level_note="Trusted: the sanitizer runtimes. The atomic-operation seam is unavailable together with ASan, so pre-emption points "
                 "are basic-block edges of dispenso code and blocking calls; same kernel model and clock as the other checks. A crash "
                 "or report is replayed by seed (no decision trace file); it must reproduce in a fresh process to be reported.")
claim("C12", "recorded [b,e) invocations tile [start,end) exactly for 8 integer types, ranges touching the type limits, static/adaptive/explicit chunking, all option combinations, nesting; nothing still running at return")
claim("C13", "at most one invocation size is not a multiple of the granularity and it ends at the range end, for every start residue, static and adaptive, wait true/false")
claim("C14", "per-state in-use counters never exceed one; container non-empty afterwards (non-empty ranges), vector/deque/list, reuseExistingState both ways")
claim("C15", "per-element application counters for random-access/bidirectional/forward iterators, n incl. 0, maxThreads incl. 0/1, wait modes, zero-thread pools; untouched elements beyond n")
claim("C16", "per-functor counters, last functor on the calling thread before return, all finished after wait(), recursive divide-and-conquer shapes")
claim("C18", "functor runs once; every get() returns the same intact object or rethrows; wait family never reports early; copies destroyed/reassigned concurrently; all five schedulables and four policy combinations")
claim("C19", "continuations run once and only with a ready antecedent whatever the registration phase; when_all/when_any readiness, order and index; task-set variants ready after wait()")
claim("C20", "timed waits: 'ready' only when complete, 'timeout' only when the simulated clock passed the deadline (relative and absolute, steady and system clock), non-deferred functors never run on the waiter")
claim("C22", "occupancy counters inside critical sections for lock/try_lock/lock_shared/try_lock_shared/upgrade/downgrade (single-writer plans for upgrade), progress via deadlock detector, idle lock admits both kinds")
claim("C23", "occupancy counters across all slots for explicit slot maps and the public class, N in {1,2,4,16}; after quiescence every slot admits a reader and a writer")
claim("C24", "history invariants: every delivered tag was emplaced and is delivered at most once; the k-th successful emplace needs k requests and k-1 fetches invoked", "The two-consumer race (fixed in 669d879) opens and closes at plain accesses, so it is only reachable in the fine-default variant (plain accesses of code under test are scheduling points).")
claim("C25", "per-resource holder counters, held<=size, move-assignment recycles, construction/destruction balance, blocked acquirers proceed (deadlock detector)")
claim("C26", "invocation count <= timesToRun, none after a false return, none starting after cancel() returned (check-then-act rule), none in progress or starting after a non-detached destructor returned, first run not before its scheduled time")
claim("C27", "per-(item,stage) counters, predecessor-output chain, filtering, all invocations finished at return, payload live counter zero")
claim("C28", "per-stage concurrent-invocation gauge never exceeds the stage limit (plain-function stages serial), generator instances within its limit")
claim("C29", "after a stage throws: pipeline() terminates and rethrows the thrown tag, no (item,stage) twice, generator stops, payload live counter zero, pool usable afterwards")
claim("C30", "random DAGs with subgraphs, BiProp edges, clear/rebuild: each incomplete node once, after its incomplete predecessors, complete afterwards, complete nodes not run; three executors")
claim("C31", "after setIncomplete + ForwardPropagator the run set equals the reference closure (forward closure plus bidirectional groups = connected components of biProp edges that meet it), in dependency order")
claim("C33", "index ranges returned by concurrent growth are disjoint and dense, values intact at their index, earlier references stay valid, size equals total growth, element lifetimes balanced; three realloc strategies")
claim("C34", "exactly-once delivery, real-time FIFO bad-pattern check, per-producer order, held lower bound <= capacity, exact sequential behaviour when quiescent, lifetimes balanced; capacities 2,3,4,16")
claim("C35", "strict FIFO with one producer and one consumer (single and batch), push refused only when full / pop only when empty as observed by that thread, quiescent exactness, lifetimes")
claim("C36", "every pushed element returned by exactly one pop or steal, owner pop returns the newest remaining, capacity bound, quiescent exactness; 1..3 thieves")
claim("C37", "concurrent grow_by ranges disjoint and dense, elements default constructed, references stable; copy/move/assign/swap equal at growing buffer counts")
claim("C41", "ownership map (no block live twice, aligned, no overlap, contents intact) across threads, cross-thread frees, thread exits; monitor on the backing-store spin lock word (no second holder, no foreign release)")
claim("C42", "chunks lie in live slabs at chunk offsets and are never live twice; after clear() no allocFunc until slabs are exhausted; every slab released exactly once")
claim("C45", "ids stable within a thread and unique over up to 64 concurrently created threads and several generations")
claim("C46", "maximum number of harness bodies nested on one stack stays under a constant for chains of N and 4N: then-chains, recursive scheduling on overloaded pools, serial pipelines, graph chains")
claim("C48", "concurrent-invocation gauge never exceeds max(maxThreads,1) for parallel_for (all chunkings, wait modes, granularity tails) and for_each")

TECHNIQUE = "deterministic simulation with fault injection: seeded scheduler over real threads parked at every atomic/futex/mutex point, modelled futex+clock, seeded fault kinds, history oracles, replayable minimised traces"


def main():
    props = [json.loads(l) for l in open(os.path.join(ROOT, "properties.jsonl"))]
    hooks = subprocess.run(["git", "-C", "/repo", "log", "--format=%H %s"], stdout=subprocess.PIPE, text=True).stdout
    hook_commits = [l.split()[0] for l in hooks.splitlines() if "verif hook" in l]
    checks = []
    na = []
    for p in props:
        pid = p["id"]
        if pid in CLAIMS:
            oracle, note = CLAIMS[pid]
            checks.append({
                "property_id": pid,
                "quick_cmd": "./vcheck run %s --tier quick" % pid,
                "thorough_cmd": "./vcheck run %s --tier thorough" % pid,
                "evidence_file": "evidence/%s.json" % pid,
                "replay_cmd_template": "./vcheck replay {path}",
                "engine": "simrt",
                "technique": TECH.get(pid, TECHNIQUE),
                "level_claimed": {
                    "category": "exploration",
                    "text": "Seeded search over schedules, kernel wake choices and injected faults of the real dispenso code under the "
                            "simulator; oracle: " + oracle + ". Sampling, not enumeration: a clean batch is evidence, not proof.",
                    "design_ref": "DESIGN.md §7 " + pid,
                },
                "level_note": LEVEL_NOTE.get(pid) or (
                    "Trusted: simrt's model of futex/mutex/cond/semaphore/thread lifecycle and its discrete-event clock; every "
                    "execution is sequentially consistent (one thread runs at a time); tuning variants default and tiny at "
                    "atomic-operation granularity plus fine-default/fine-tiny, where every plain memory access made by dispenso "
                    "code is a scheduling point too; <= 8 simulated threads per run." + (" " + note if note else "")),
            })
        elif pid in NOT_APPLICABLE_PURE:
            na.append({"property_id": pid, "reason": NOT_APPLICABLE_PURE[pid]})
        else:
            na.append({"property_id": pid,
                       "reason": "not claimed yet: the simulation workload for this property has not been built/validated in this round (see DESIGN.md §7 for the plan)"})
    m = {
        "version": 1,
        "setup_cmd": "make -j16 all",
        "hooks": {
            "guard": "DISPENSO_VERIF_SIM",
            "enable": "the Makefile compiles /repo/dispenso/*.cpp and the harness with -DDISPENSO_VERIF_SIM (plus clang's tsan pass for atomics only)",
            "baseline_off_cmd": "cmake --build /repo/_build && ctest --test-dir /repo/_build -j8 --timeout 900",
            "source_commits": hook_commits,
            "add_only": True,
        },
        "engines": [{
            "name": "simrt",
            "path": "simrt/",
            "serves_properties": sorted(CLAIMS.keys()),
            "kind_free_text": "deterministic simulator: token scheduler over real threads, modelled kernel primitives, discrete-event clock, seeded fault injection, trace record/replay/minimisation",
        }],
        "checks": checks,
        "not_applicable": na,
        "notes": "All checks go through ./vcheck, which rebuilds build/<variant>/simcheck from /repo's working tree (make, header dependencies tracked) before running. Known findings: known_findings.txt.",
    }
    with open(os.path.join(ROOT, "MANIFEST.json"), "w") as f:
        json.dump(m, f, indent=1)
        f.write("\n")
    print("claimed", len(checks), "not_applicable", len(na))


if __name__ == "__main__":
    main()
