// Memory returned to the allocator loses its access history: glibc's own locking orders a free and
// the next malloc of the same block, but it is invisible to the race detector (race.cpp).  Linked
// into the non-sanitizer variants only (ASan owns free() in the others).
#include <malloc.h>
#include <stddef.h>

#include "race.h"

extern "C" void __libc_free(void*);
extern "C" void* __libc_realloc(void*, size_t);

extern "C" void sim_tso_free_range(const void* addr, size_t size);

extern "C" void free(void* p) {
  if (p)
    sim_tso_free_range(p, malloc_usable_size(p)); // pending buffered stores into the block land first
  if (p && rd_on() && !rd_busy)
    rd_clear(p, malloc_usable_size(p));
  __libc_free(p);
}
extern "C" void* realloc(void* p, size_t n) {
  if (p)
    sim_tso_free_range(p, malloc_usable_size(p));
  if (p && rd_on() && !rd_busy)
    rd_clear(p, malloc_usable_size(p));
  return __libc_realloc(p, n);
}
