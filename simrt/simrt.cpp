// simrt core: token scheduler, clock, kernel model, faults, trace/replay.
// Compiled WITHOUT any instrumentation (no tsan pass, no asan, no coverage).
#include "simrt.h"
#include "race.h"

#include <dlfcn.h>
#include <errno.h>
#include <fcntl.h>
#include <linux/futex.h>
#include <malloc.h>
#include <pthread.h>
#include <sched.h>
#include <semaphore.h>
#include <stdarg.h>
#include <stdio.h>
#include <stdlib.h>
#include <string.h>
#include <sys/syscall.h>
#include <sys/time.h>
#include <time.h>
#include <unistd.h>

#include <algorithm>
#include <vector>

// ------------------------------------------------------------------------------------------
// raw syscalls (we interpose syscall(), so simrt itself must not go through libc for futex)
// ------------------------------------------------------------------------------------------
static inline long raw_syscall6(long n, long a, long b, long c, long d, long e, long f) {
  long ret;
  register long r10 __asm__("r10") = d;
  register long r8 __asm__("r8") = e;
  register long r9 __asm__("r9") = f;
  __asm__ volatile("syscall"
                   : "=a"(ret)
                   : "a"(n), "D"(a), "S"(b), "d"(c), "r"(r10), "r"(r8), "r"(r9)
                   : "rcx", "r11", "memory");
  return ret;
}
static inline long raw_futex(int* a, int op, int v) {
  return raw_syscall6(SYS_futex, (long)a, op, v, 0, 0, 0);
}
static inline void cpu_relax() {
  __asm__ volatile("pause" ::: "memory");
}

// ------------------------------------------------------------------------------------------
// PRNG
// ------------------------------------------------------------------------------------------
struct Rng {
  uint64_t s;
  uint64_t next() {
    uint64_t z = (s += 0x9e3779b97f4a7c15ull);
    z = (z ^ (z >> 30)) * 0xbf58476d1ce4e5b9ull;
    z = (z ^ (z >> 27)) * 0x94d049bb133111ebull;
    return z ^ (z >> 31);
  }
  uint32_t below(uint32_t n) {
    return n <= 1 ? 0 : (uint32_t)((next() >> 11) % n);
  }
  bool chance(uint32_t num, uint32_t den) {
    return below(den) < num;
  }
};
static uint64_t mix64(uint64_t a, uint64_t b) {
  Rng r{a ^ (b * 0x9e3779b97f4a7c15ull)};
  return r.next();
}

// ------------------------------------------------------------------------------------------
// state
// ------------------------------------------------------------------------------------------
enum TState { T_UNUSED = 0, T_RUNNABLE, T_BLOCKED, T_EXITED };
enum { WR_WOKEN = 0, WR_TIMEOUT = 1, WR_SPURIOUS = 2 };
enum Policy { POL_RANDOM = 0, POL_PCT = 1, POL_RR = 2, POL_NPOL = 3 };
enum DType { D_SWITCH = 1, D_PICK = 2, D_WAKECHOICE = 3, D_FAULT = 4, D_LATE = 5, D_SLOW = 6, D_YIELDNOOP = 7, D_EINTR = 8, D_STOREDELAY = 9, D_SPURWAIT = 10 };

struct SimThread {
  int id;
  volatile int st;
  int wk;
  const void* waddr;
  uint64_t deadline;
  uint64_t wgen;
  int wake_result;
  int park; // 0 = not released, 1 = go, 2 = sleeping in futex
  pthread_t real;
  bool has_real;
  bool detached;
  bool joined;
  bool reaped;
  uintptr_t stack_lo, stack_hi; // race detector: a thread that reuses a dead thread's stack/TLS is ordered after it
  void* (*fn)(void*);
  void* arg;
  void* ret;
  uint64_t stall_until;
  bool spur_wake; // this wait ends in a spurious wake-up (its timer is the wake time, not a timeout)
  int mark_left;       // sim_mark_after_atomics: atomic operations still to go
  uint64_t mark_step;  // step at which the last of them was executed (0: not yet)
  int64_t prio;
  uint32_t load_streak;
  uint32_t run_streak;
  uint64_t last_load_step;
  uint64_t last_yield_step;
  uint64_t block_seq;
  bool quiet;
  uint64_t points;
  int pcq; // pc-guard quantum
  uint64_t pcq_rng;
  uint32_t mutex_bitset;
};

static const int kMaxThreads = 200;

struct Timer {
  uint64_t deadline;
  uint64_t seq;
  int tid;
  uint64_t wgen;
};
struct TimerCmp {
  bool operator()(const Timer& a, const Timer& b) const {
    return a.deadline != b.deadline ? a.deadline > b.deadline : a.seq > b.seq;
  }
};

struct MutexEnt {
  const void* addr;
  int owner; // -1 free
  int count;
  bool recursive;
};
struct SemEnt {
  const void* addr;
  long count;
};
struct OnceEnt {
  const void* addr;
  int runner;
};
struct Dec {
  uint64_t step;
  uint32_t type;
  int64_t val;
};

struct Global {
  bool active;
  bool finishing;
  SimOpts opts;
  SimThread th[kMaxThreads];
  int nth;
  int cur;
  uint64_t step;
  uint64_t now;
  uint64_t timer_seq;
  uint64_t timer_min;
  std::vector<Timer>* timers;
  std::vector<MutexEnt>* mutexes;
  std::vector<SemEnt>* sems;
  std::vector<OnceEnt>* onces;
  std::vector<const void*>* recursive_mutexes;
  // decisions
  bool replay;
  std::vector<Dec>* trace;    // recorded
  std::vector<Dec>* rtrace;   // replay input
  size_t rpos;
  std::vector<uint32_t>* plan;  // recorded
  std::vector<uint32_t>* rplan; // replay input
  size_t rplanpos;
  // prng
  Rng r_plan, r_sched, r_fault, r_kernel, r_conf;
  uint32_t conflict_q;      // per-run probability (x/1024) of stalling a thread at a communication point
  uint64_t conflict_stalls; // how many were taken
  // policy
  int policy;
  uint32_t p_switch_num; // RANDOM: switch prob = num/1024
  uint32_t pct_q_num;    // PCT: priority-change prob per point = num/65536
  uint32_t rr_q;
  uint32_t rr_used;
  int64_t pct_low;
  bool in_tail;
  // faults
  uint32_t faults_on; // subset of opts.fault_mask chosen by swarm
  bool faults_enabled;
  int fault_rate_scale; // permille
  uint64_t next_fault_step;
  uint32_t fault_gap; // mean points between fault opportunities
  int wake_policy;    // 0 fifo 1 lifo 2 random
  uint64_t fired[SF_NKINDS];
  // stats
  uint64_t switches;
  uint64_t futex_timeouts;
  uint64_t idle_jumps;
  uint64_t idle_futex_timeouts;
  bool in_idle;
  uint64_t blocks;
  uint64_t events;
  uint64_t fp;
  uint64_t sched_sig;
  uint64_t shape;
  uint64_t probes[64];
  uint64_t last_write_step;
  uint64_t maxnow;
  int max_threads_live;
  SimThread* reap;
  FILE* tracef;
  sim_hang_cb hang_cb;
  const void* watch_addr;
  sim_watch_cb watch_cb;
  char notes[1024];
  size_t notes_len;
};
static Global g;
static __thread SimThread* tl_self;
static pthread_key_t g_exit_key;
static bool g_exit_key_made;

static inline SimThread* self() {
  return tl_self;
}
static inline void fp_mix(uint64_t v) {
  g.fp = (g.fp ^ v) * 0x100000001b3ull;
  g.fp ^= g.fp >> 29;
}

// ------------------------------------------------------------------------------------------
// real function lookup
// ------------------------------------------------------------------------------------------
// When a sanitizer runtime is linked in, its interceptor (__interceptor_<name>) is the "real"
// function we must chain to, so that the runtime keeps seeing thread creation/joins etc.
#define REAL(ret, name, ...)                                          \
  typedef ret (*name##_fn)(__VA_ARGS__);                              \
  static name##_fn real_##name() {                                    \
    static name##_fn f;                                               \
    if (!f)                                                           \
      f = (name##_fn)dlsym(RTLD_DEFAULT, "__interceptor_" #name);     \
    if (!f)                                                           \
      f = (name##_fn)dlsym(RTLD_NEXT, #name);                         \
    return f;                                                         \
  }
#define REALV(ret, name, ver, ...)                     \
  typedef ret (*name##_fn)(__VA_ARGS__);               \
  static name##_fn real_##name() {                     \
    static name##_fn f;                                \
    if (!f)                                            \
      f = (name##_fn)dlvsym(RTLD_NEXT, #name, ver);    \
    if (!f)                                            \
      f = (name##_fn)dlsym(RTLD_NEXT, #name);          \
    return f;                                          \
  }

REAL(int, pthread_create, pthread_t*, const pthread_attr_t*, void* (*)(void*), void*)
REAL(int, pthread_join, pthread_t, void**)
REAL(int, pthread_detach, pthread_t)
REAL(int, pthread_mutex_lock, pthread_mutex_t*)
REAL(int, pthread_mutex_trylock, pthread_mutex_t*)
REAL(int, pthread_mutex_unlock, pthread_mutex_t*)
REAL(int, pthread_mutex_init, pthread_mutex_t*, const pthread_mutexattr_t*)
REAL(int, pthread_mutex_destroy, pthread_mutex_t*)
REALV(int, pthread_cond_wait, "GLIBC_2.3.2", pthread_cond_t*, pthread_mutex_t*)
REALV(int, pthread_cond_timedwait, "GLIBC_2.3.2", pthread_cond_t*, pthread_mutex_t*, const struct timespec*)
REAL(int, pthread_cond_clockwait, pthread_cond_t*, pthread_mutex_t*, clockid_t, const struct timespec*)
REALV(int, pthread_cond_signal, "GLIBC_2.3.2", pthread_cond_t*)
REALV(int, pthread_cond_broadcast, "GLIBC_2.3.2", pthread_cond_t*)
REAL(int, pthread_once, pthread_once_t*, void (*)(void))
REAL(int, sem_init, sem_t*, int, unsigned)
REAL(int, sem_destroy, sem_t*)
REAL(int, sem_wait, sem_t*)
REAL(int, sem_trywait, sem_t*)
REAL(int, sem_timedwait, sem_t*, const struct timespec*)
REAL(int, sem_post, sem_t*)
REAL(int, sched_yield, void)
REAL(int, nanosleep, const struct timespec*, struct timespec*)
REAL(int, clock_nanosleep, clockid_t, int, const struct timespec*, struct timespec*)
REAL(int, usleep, useconds_t)
REAL(int, clock_gettime, clockid_t, struct timespec*)
REAL(int, gettimeofday, struct timeval*, void*)
REAL(time_t, time, time_t*)

static inline bool simulated() {
  return g.active && tl_self != nullptr && tl_self->st != T_EXITED;
}

// ------------------------------------------------------------------------------------------
// parking
// ------------------------------------------------------------------------------------------
static void after_resume();

static int g_spin = 0;
static void park_wait(SimThread* t) {
  for (int i = 0; i < g_spin; ++i) {
    if (__atomic_load_n(&t->park, __ATOMIC_ACQUIRE) == 1)
      goto got;
    cpu_relax();
  }
  for (;;) {
    int exp = 0;
    if (__atomic_compare_exchange_n(&t->park, &exp, 2, false, __ATOMIC_ACQ_REL, __ATOMIC_ACQUIRE)) {
      raw_futex(&t->park, FUTEX_WAIT_PRIVATE, 2);
    }
    if (__atomic_load_n(&t->park, __ATOMIC_ACQUIRE) == 1)
      break;
  }
got:
  __atomic_store_n(&t->park, 0, __ATOMIC_RELAXED);
  after_resume();
}
static void release(SimThread* t) {
  int old = __atomic_exchange_n(&t->park, 1, __ATOMIC_ACQ_REL);
  if (old == 2)
    raw_futex(&t->park, FUTEX_WAKE_PRIVATE, 1);
}
static void after_resume() {
  if (g.reap) {
    SimThread* d = g.reap;
    g.reap = nullptr;
    if (d->has_real && !d->reaped) {
      void* r = nullptr;
      real_pthread_join()(d->real, &r);
      d->reaped = true;
    }
  }
}

// ------------------------------------------------------------------------------------------
// decisions (PRNG or replay trace)
// ------------------------------------------------------------------------------------------
static void record(uint32_t type, int64_t val) {
  g.trace->push_back(Dec{g.step, type, val});
  fp_mix(g.step * 31 + type);
  fp_mix((uint64_t)val);
}
static bool replay_take(uint32_t type, int64_t* val) {
  std::vector<Dec>& r = *g.rtrace;
  while (g.rpos < r.size() && r[g.rpos].step < g.step)
    ++g.rpos;
  for (size_t i = g.rpos; i < r.size() && r[i].step == g.step; ++i) {
    if (r[i].type == type) {
      *val = r[i].val;
      r[i].type = 0; // consumed
      return true;
    }
  }
  return false;
}

// ------------------------------------------------------------------------------------------
// describe state (for deadlock/hang reports)
// ------------------------------------------------------------------------------------------
static const char* wkname(int wk) {
  static const char* n[] = {"run", "futex", "mutex", "cond", "sem", "join", "sleep", "once", "event", "start"};
  return (wk >= 0 && wk < SW_NKINDS) ? n[wk] : "?";
}
static void describe_threads(char* buf, size_t n) {
  size_t o = 0;
  int counts[SW_NKINDS + 2] = {0};
  for (int i = 0; i < g.nth && o + 40 < n; ++i) {
    SimThread& t = g.th[i];
    if (t.st == T_EXITED || t.st == T_UNUSED)
      continue;
    if (t.st == T_RUNNABLE)
      counts[0]++;
    else
      counts[t.wk]++;
  }
  for (int k = 0; k < SW_NKINDS; ++k) {
    if (counts[k])
      o += (size_t)snprintf(buf + o, n - o, "%s%s=%d", o ? "," : "", wkname(k), counts[k]);
  }
  if (!o)
    snprintf(buf, n, "none");
}

// ------------------------------------------------------------------------------------------
// timers
// ------------------------------------------------------------------------------------------
static void timer_add(uint64_t deadline, SimThread* t) {
  Timer tm{deadline, ++g.timer_seq, t->id, t->wgen};
  g.timers->push_back(tm);
  std::push_heap(g.timers->begin(), g.timers->end(), TimerCmp());
  g.timer_min = g.timers->front().deadline;
}
static void make_runnable(SimThread* t, int result) {
  t->st = T_RUNNABLE;
  t->wake_result = result;
  t->wgen++;
  t->waddr = nullptr;
  // keep wk for reporting until it blocks again
}
static bool timer_pop_valid(Timer* out) {
  while (!g.timers->empty()) {
    std::pop_heap(g.timers->begin(), g.timers->end(), TimerCmp());
    Timer tm = g.timers->back();
    g.timers->pop_back();
    SimThread& t = g.th[tm.tid];
    if (t.st == T_BLOCKED && t.wgen == tm.wgen) {
      *out = tm;
      g.timer_min = g.timers->empty() ? UINT64_MAX : g.timers->front().deadline;
      return true;
    }
  }
  g.timer_min = UINT64_MAX;
  return false;
}
static void fire_timer(const Timer& tm) {
  SimThread& t = g.th[tm.tid];
  if (t.spur_wake) {
    make_runnable(&t, WR_SPURIOUS);
    fp_mix(0x7200 + (uint64_t)tm.tid);
    return;
  }
  if (t.wk == SW_FUTEX) {
    g.futex_timeouts++;
    if (g.in_idle)
      g.idle_futex_timeouts++;
  }
  make_runnable(&t, WR_TIMEOUT);
  fp_mix(0x7100 + (uint64_t)tm.tid);
}
static void fire_due_timers() {
  while (g.timer_min <= g.now) {
    // peek: top may be stale
    Timer tm;
    if (!timer_pop_valid(&tm))
      break;
    if (tm.deadline > g.now) {
      // not due: push back
      g.timers->push_back(tm);
      std::push_heap(g.timers->begin(), g.timers->end(), TimerCmp());
      g.timer_min = g.timers->front().deadline;
      break;
    }
    fire_timer(tm);
  }
}

// ------------------------------------------------------------------------------------------
// violation / result output
// ------------------------------------------------------------------------------------------
static void json_escape(char* dst, size_t n, const char* src) {
  size_t o = 0;
  for (; *src && o + 8 < n; ++src) {
    unsigned char c = (unsigned char)*src;
    if (c == '"' || c == '\\') {
      dst[o++] = '\\';
      dst[o++] = (char)c;
    } else if (c < 0x20) {
      dst[o++] = ' ';
    } else {
      dst[o++] = (char)c;
    }
  }
  dst[o] = 0;
}

extern "C" void sim_result_line(char* buf, size_t n, const char* status, const char* cls, const char* msg) {
  char ecls[512], emsg[1024], enotes[1100];
  json_escape(ecls, sizeof ecls, cls ? cls : "");
  json_escape(emsg, sizeof emsg, msg ? msg : "");
  json_escape(enotes, sizeof enotes, g.notes);
  size_t o = 0;
  o += (size_t)snprintf(
      buf + o, n - o,
      "{\"seed\":%llu,\"workload\":\"%s\",\"status\":\"%s\",\"class\":\"%s\",\"msg\":\"%s\",\"fp\":\"%016llx\",\"steps\":%llu,"
      "\"switches\":%llu,\"simtime_ns\":%llu,\"threads\":%d,\"blocks\":%llu,\"idle_jumps\":%llu,"
      "\"futex_timeouts\":%llu,\"events\":%llu,\"policy\":%d,\"sched_sig\":\"%016llx\",\"shape\":\"%016llx\","
      "\"tail\":%d,\"cstalls\":%llu,\"notes\":\"%s\",\"faults\":[",
      (unsigned long long)g.opts.seed, g.opts.workload ? g.opts.workload : "", status, ecls, emsg,
      (unsigned long long)g.fp,
      (unsigned long long)g.step, (unsigned long long)g.switches, (unsigned long long)g.now, g.nth,
      (unsigned long long)g.blocks, (unsigned long long)g.idle_jumps, (unsigned long long)g.futex_timeouts,
      (unsigned long long)g.events, g.policy, (unsigned long long)g.sched_sig, (unsigned long long)g.shape,
      g.in_tail ? 1 : 0, (unsigned long long)g.conflict_stalls, enotes);
  for (int k = 0; k < SF_NKINDS; ++k)
    o += (size_t)snprintf(buf + o, n - o, "%s%llu", k ? "," : "", (unsigned long long)g.fired[k]);
  o += (size_t)snprintf(buf + o, n - o, "],\"probes\":[");
  int lastp = 0;
  for (int k = 0; k < 64; ++k)
    if (g.probes[k])
      lastp = k + 1;
  for (int k = 0; k < lastp; ++k)
    o += (size_t)snprintf(buf + o, n - o, "%s%llu", k ? "," : "", (unsigned long long)g.probes[k]);
  o += (size_t)snprintf(buf + o, n - o, "]");
  if (rd_on()) {
    uint64_t a = 0, b = 0, c = 0, d = 0;
    rd_stats(&a, &b, &c, &d);
    o += (size_t)snprintf(buf + o, n - o, ",\"race\":[%llu,%llu,%llu,%llu]", (unsigned long long)a, (unsigned long long)b,
                          (unsigned long long)c, (unsigned long long)d);
  }
  o += (size_t)snprintf(buf + o, n - o, "}\n");
}

static int g_memonly; // 0 property oracles, 1 memory-only (C11), 2 data-race-only (C10)
static void write_replay(const char* cls, const char* msg) {
  if (!g.opts.record_path)
    return;
  FILE* f = fopen(g.opts.record_path, "w");
  if (!f)
    return;
  fprintf(f, "simreplay 1\n");
  fprintf(f, "prop %s\n", g.opts.prop ? g.opts.prop : "-");
  fprintf(f, "workload %s\n", g.opts.workload ? g.opts.workload : "-");
  fprintf(f, "seed %llu\n", (unsigned long long)g.opts.seed);
  fprintf(f, "opts %u %llu %llu %d\n", g.opts.fault_mask, (unsigned long long)g.opts.explore_steps,
          (unsigned long long)g.opts.tail_steps, g.opts.force_policy);
  fprintf(f, "mode %d\n", g_memonly);
  fprintf(f, "class %s\n", cls);
  fprintf(f, "msg %s\n", msg);
  fprintf(f, "fingerprint %016llx\n", (unsigned long long)g.fp);
  fprintf(f, "steps %llu\n", (unsigned long long)g.step);
  fprintf(f, "plan %zu", g.plan->size());
  for (uint32_t v : *g.plan)
    fprintf(f, " %u", v);
  fprintf(f, "\n");
  fprintf(f, "trace %zu\n", g.trace->size());
  for (const Dec& d : *g.trace)
    fprintf(f, "%llu %u %lld\n", (unsigned long long)d.step, d.type, (long long)d.val);
  fclose(f);
}

static bool load_replay(const char* path) {
  FILE* f = fopen(path, "r");
  if (!f)
    return false;
  char line[4096];
  g.rplan = new std::vector<uint32_t>();
  g.rtrace = new std::vector<Dec>();
  while (fgets(line, sizeof line, f)) {
    if (!strncmp(line, "plan ", 5)) {
      // may be long: re-read token-wise
      size_t n = 0;
      char* p = line + 5;
      n = strtoull(p, &p, 10);
      // the plan line can exceed the buffer; parse progressively
      size_t got = 0;
      for (;;) {
        while (*p == ' ')
          ++p;
        if (*p == '\n' || *p == 0) {
          if (*p == '\n' || got >= n)
            break;
          if (!fgets(line, sizeof line, f))
            break;
          p = line;
          continue;
        }
        char* q;
        unsigned long v = strtoul(p, &q, 10);
        if (q == p)
          break;
        // a number split at the buffer edge: if we stopped at buffer end without newline, merge
        if (*q == 0 && !feof(f)) {
          // incomplete token; read more and re-parse joined
          char tmp[64];
          size_t len = (size_t)(q - p);
          memcpy(tmp, p, len);
          if (!fgets(line, sizeof line, f)) {
            g.rplan->push_back((uint32_t)v);
            ++got;
            break;
          }
          size_t k = 0;
          while (line[k] >= '0' && line[k] <= '9' && len + k < 60) {
            tmp[len + k] = line[k];
            ++k;
          }
          tmp[len + k] = 0;
          g.rplan->push_back((uint32_t)strtoul(tmp, nullptr, 10));
          ++got;
          p = line + k;
          continue;
        }
        g.rplan->push_back((uint32_t)v);
        ++got;
        p = q;
      }
    } else if (!strncmp(line, "trace ", 6)) {
      unsigned long long s;
      unsigned t;
      long long v;
      while (fgets(line, sizeof line, f)) {
        if (sscanf(line, "%llu %u %lld", &s, &t, &v) == 3)
          g.rtrace->push_back(Dec{s, t, v});
      }
    }
  }
  fclose(f);
  return true;
}

extern "C" int __lsan_do_recoverable_leak_check() __attribute__((weak));
static char g_soft_cls[256];
static char g_soft_msg[900];
extern "C" void sim_set_memonly(int on) {
  g_memonly = on;
}

extern "C" void sim_fail(const char* cls, const char* fmt, ...) {
  static int failing;
  if (__atomic_exchange_n(&failing, 1, __ATOMIC_SEQ_CST)) {
    for (;;)
      pause();
  }
  char msg[900];
  va_list ap;
  va_start(ap, fmt);
  vsnprintf(msg, sizeof msg, fmt, ap);
  va_end(ap);
  g.active = false;
  write_replay(cls, msg);
  if (g.tracef) {
    fprintf(g.tracef, "FAIL %s %s\n", cls, msg);
    fflush(g.tracef);
  }
  char buf[8192];
  if (g_memonly == 2) {
    // data-race check (C10): only race reports count; anything else that ends the run is incidental,
    // and a race seen earlier in the run is still reported
    bool race = !strncmp(cls, "race:", 5);
    if (!race && !strncmp(g_soft_cls, "race:", 5)) {
      cls = g_soft_cls;
      snprintf(msg, sizeof msg, "%s", g_soft_msg);
      race = true;
      write_replay(cls, msg);
    }
    sim_result_line(buf, sizeof buf, race ? "violation" : "incidental", cls, msg);
    ssize_t w4 = write(1, buf, strlen(buf));
    (void)w4;
    _exit(0);
  }
  if (g_memonly) {
    // whole-library memory-safety check (C11): an oracle violation of some other property ends the
    // run but is only "incidental" here; still look for leaked memory before leaving
    bool hang = !strncmp(cls, "hang", 4) || !strncmp(cls, "deadlock", 8);
    if (!hang && __lsan_do_recoverable_leak_check && __lsan_do_recoverable_leak_check()) {
      sim_result_line(buf, sizeof buf, "leak", "lsan", msg);
      ssize_t w2 = write(1, buf, strlen(buf));
      (void)w2;
      _exit(78);
    }
    sim_result_line(buf, sizeof buf, "incidental", cls, msg);
    ssize_t w3 = write(1, buf, strlen(buf));
    (void)w3;
    _exit(0);
  }
  sim_result_line(buf, sizeof buf, "violation", cls, msg);
  ssize_t w = write(1, buf, strlen(buf));
  (void)w;
  _exit(0);
}

// A "soft" violation does not end the run (so it cannot mask other checks): the first one is
// remembered and reported when the run finishes cleanly.
extern "C" void sim_soft_fail(const char* cls, const char* fmt, ...) {
  if (g_soft_cls[0])
    return;
  va_list ap;
  va_start(ap, fmt);
  vsnprintf(g_soft_msg, sizeof g_soft_msg, fmt, ap);
  va_end(ap);
  snprintf(g_soft_cls, sizeof g_soft_cls, "%s", cls);
  sim_event(99, 0, 0);
}
extern "C" void sim_report_soft(void) {
  if (g_soft_cls[0])
    sim_fail(g_soft_cls, "%s", g_soft_msg);
}

// ------------------------------------------------------------------------------------------
// picking threads
// ------------------------------------------------------------------------------------------
static inline bool is_candidate(const SimThread& t) {
  return t.st == T_RUNNABLE && t.stall_until <= g.step;
}

static int collect_candidates(int* out, int exclude) {
  int n = 0;
  for (int i = 0; i < g.nth; ++i) {
    if (i != exclude && is_candidate(g.th[i]))
      out[n++] = i;
  }
  return n;
}

static void pct_demote(SimThread* t) {
  t->prio = --g.pct_low;
  t->load_streak = 0;
  t->run_streak = 0;
}

// choose among candidates according to the policy (PRNG mode)
static int policy_choose(int* cand, int n) {
  if (n == 1)
    return cand[0];
  if (g.in_tail || g.policy == POL_RR) {
    // next id after cur, cyclically
    int best = -1;
    for (int i = 0; i < n; ++i)
      if (cand[i] > g.cur) {
        best = cand[i];
        break;
      }
    return best >= 0 ? best : cand[0];
  }
  if (g.policy == POL_PCT) {
    int best = cand[0];
    for (int i = 1; i < n; ++i)
      if (g.th[cand[i]].prio > g.th[best].prio)
        best = cand[i];
    return best;
  }
  return cand[g.r_sched.below((uint32_t)n)];
}

// The workload may contribute a short key (what was being waited for) so that two different
// liveness failures of one workload get different class keys.
static sim_hang_cb g_hang_key_cb;
extern "C" void sim_set_hang_keyer(sim_hang_cb cb) {
  g_hang_key_cb = cb;
}
static void liveness_class(char* out, size_t n, const char* what) {
  char key[160] = "";
  if (g_hang_key_cb)
    g_hang_key_cb(key, sizeof key);
  if (key[0])
    snprintf(out, n, "%s:%s", what, key);
  else
    snprintf(out, n, "%s", what);
}

[[noreturn]] static void report_deadlock() {
  char d[512];
  describe_threads(d, sizeof d);
  char extra[600] = "";
  if (g.hang_cb)
    g.hang_cb(extra, sizeof extra);
  char cls[200];
  liveness_class(cls, sizeof cls, "deadlock");
  sim_fail(cls, "no runnable thread and no timer: %s %s", d, extra);
}

// The current thread cannot continue (blocked or exited): choose who runs next.
// May advance the clock to the next timer (idle jump). Returns a runnable tid.
static int pick_next_after_block() {
  int cand[kMaxThreads];
  for (;;) {
    int n = collect_candidates(cand, -1);
    if (n > 0) {
      int def = cand[0];
      int choice;
      if (g.replay) {
        int64_t v;
        choice = def;
        if (replay_take(D_PICK, &v)) {
          for (int i = 0; i < n; ++i)
            if (cand[i] == (int)v)
              choice = (int)v;
        }
      } else {
        choice = policy_choose(cand, n);
      }
      if (choice != def)
        record(D_PICK, choice);
      return choice;
    }
    // only stalled runnable threads?
    bool anyStalled = false;
    for (int i = 0; i < g.nth; ++i)
      if (g.th[i].st == T_RUNNABLE && g.th[i].stall_until > g.step) {
        g.th[i].stall_until = 0;
        anyStalled = true;
      }
    if (anyStalled)
      continue;
    Timer tm;
    if (timer_pop_valid(&tm)) {
      if (tm.deadline > g.now)
        g.now = tm.deadline;
      g.idle_jumps++;
      g.in_idle = true;
      fire_timer(tm);
      fire_due_timers();
      g.in_idle = false;
      continue;
    }
    report_deadlock();
  }
}

static void switch_to(int next) {
  SimThread* me = self();
  g.cur = next;
  g.switches++;
  g.sched_sig = (g.sched_sig ^ ((uint64_t)next * 0x9e37 + (uint64_t)me->id)) * 0x100000001b3ull;
  fp_mix(g.step ^ ((uint64_t)next << 48));
  if (g.tracef)
    fprintf(g.tracef, "%llu sw %d->%d\n", (unsigned long long)g.step, me->id, next);
  g.th[next].run_streak = 0;
  release(&g.th[next]);
  park_wait(me);
}

static int block_current(int wk, const void* addr, uint64_t deadline) {
  SimThread* t = self();
  t->st = T_BLOCKED;
  t->wk = wk;
  t->waddr = addr;
  t->wake_result = -1;
  t->wgen++;
  t->deadline = deadline;
  g.blocks++;
  if (deadline)
    timer_add(deadline, t);
  if (g.tracef)
    fprintf(g.tracef, "%llu blk t%d %s\n", (unsigned long long)g.step, t->id, wkname(wk));
  int next = pick_next_after_block();
  if (next != t->id)
    switch_to(next);
  return t->wake_result;
}

// ------------------------------------------------------------------------------------------
// faults
// ------------------------------------------------------------------------------------------
static void schedule_next_fault() {
  if (!g.fault_gap) {
    g.next_fault_step = UINT64_MAX;
    return;
  }
  uint64_t gap = 1 + g.r_fault.below(2 * g.fault_gap);
  if (g.fault_rate_scale != 1000)
    gap = gap * 1000 / (uint64_t)(g.fault_rate_scale > 0 ? g.fault_rate_scale : 1);
  g.next_fault_step = g.step + gap;
}

static int waiters_of_kind(int wk, int* out) {
  int n = 0;
  for (int i = 0; i < g.nth; ++i)
    if (g.th[i].st == T_BLOCKED && g.th[i].wk == wk)
      out[n++] = i;
  return n;
}

static void apply_fault(int kind, int64_t param) {
  SimThread* t = self();
  switch (kind) {
    case SF_STALL: {
      t->stall_until = g.step + (uint64_t)param;
      g.fired[SF_STALL]++;
      break;
    }
    case SF_SPURIOUS_FUTEX:
    case SF_SPURIOUS_COND: {
      int tid = (int)param;
      if (tid >= 0 && tid < g.nth && g.th[tid].st == T_BLOCKED &&
          g.th[tid].wk == (kind == SF_SPURIOUS_FUTEX ? SW_FUTEX : SW_COND)) {
        make_runnable(&g.th[tid], WR_SPURIOUS);
        g.fired[kind]++;
      }
      break;
    }
    default:
      break;
  }
}

static int g_pcq_max; // SIM+ASAN engine: maximum coverage-guard quantum; 0 = engine off

static void fault_opportunity() {
  // PRNG mode: pick one enabled point-fault kind and maybe apply it
  uint32_t kinds[3];
  int nk = 0;
  if (g.faults_on & SF_BIT(SF_STALL))
    kinds[nk++] = SF_STALL;
  if (g.faults_on & SF_BIT(SF_SPURIOUS_FUTEX))
    kinds[nk++] = SF_SPURIOUS_FUTEX;
  if (g.faults_on & SF_BIT(SF_SPURIOUS_COND))
    kinds[nk++] = SF_SPURIOUS_COND;
  schedule_next_fault();
  if (!nk)
    return;
  int kind = (int)kinds[g.r_fault.below((uint32_t)nk)];
  int64_t param = 0;
  if (kind == SF_STALL) {
    // log-uniform 10^3 .. 10^6 points, biased short
    static const uint32_t lens[] = {300, 1000, 3000, 10000, 30000, 100000, 300000};
    param = lens[g.r_fault.below(7)];
    if (g_pcq_max > 0) // SIM+ASAN engine: a point is up to 150 basic blocks long, and a spinning waiter burns them
      param = param / 40 + 10;
    int cand[kMaxThreads];
    if (collect_candidates(cand, self()->id) == 0)
      return; // nobody else to run: a stall would be a no-op
  } else {
    int w[kMaxThreads];
    int n = waiters_of_kind(kind == SF_SPURIOUS_FUTEX ? SW_FUTEX : SW_COND, w);
    if (!n)
      return;
    param = w[g.r_fault.below((uint32_t)n)];
  }
  record(D_FAULT, (int64_t)kind | (param << 8));
  apply_fault(kind, param);
}

// ------------------------------------------------------------------------------------------
// the point
// ------------------------------------------------------------------------------------------
static void enter_tail() {
  g.in_tail = true;
  g.faults_enabled = false;
  g.next_fault_step = UINT64_MAX;
  for (int i = 0; i < g.nth; ++i)
    g.th[i].stall_until = 0;
  if (g.tracef)
    fprintf(g.tracef, "%llu tail\n", (unsigned long long)g.step);
}

[[noreturn]] static void report_hang() {
  char d[512];
  describe_threads(d, sizeof d);
  char extra[600] = "";
  if (g.hang_cb)
    g.hang_cb(extra, sizeof extra);
  char cls[200];
  liveness_class(cls, sizeof cls, "hang");
  sim_fail(cls, "step budget exhausted in fair tail: %s %s", d, extra);
}

static inline void advance(uint64_t ns) {
  g.step++;
  g.now += ns;
  if (g.step >= g.opts.explore_steps) {
    if (!g.in_tail)
      enter_tail();
    if (g.step >= g.opts.explore_steps + g.opts.tail_steps)
      report_hang();
  }
  if (g.timer_min <= g.now)
    fire_due_timers();
}

// decide whether to switch away at an ordinary point; returns target or -1
static int decide_switch(SimThread* t, bool forced) {
  int cand[kMaxThreads];
  if (g.replay) {
    int64_t v;
    while (replay_take(D_FAULT, &v)) { // (there may be two at one step: a communication-point stall and a periodic fault)
      record(D_FAULT, v);
      apply_fault((int)(v & 0xff), v >> 8);
    }
    if (t->stall_until > g.step || forced) {
      int n = collect_candidates(cand, t->id);
      if (n == 0) {
        t->stall_until = 0;
        return -1;
      }
      int choice = cand[0];
      if (replay_take(D_SWITCH, &v)) {
        for (int i = 0; i < n; ++i)
          if (cand[i] == (int)v)
            choice = (int)v;
      }
      record(D_SWITCH, choice);
      return choice;
    }
    if (replay_take(D_SWITCH, &v)) {
      int tid = (int)v;
      if (tid >= 0 && tid < g.nth && tid != t->id && is_candidate(g.th[tid])) {
        record(D_SWITCH, tid);
        return tid;
      }
    }
    return -1;
  }

  if (g.faults_enabled && g.step >= g.next_fault_step)
    fault_opportunity();

  bool must = forced || t->stall_until > g.step;
  int target = -1;
  if (g.in_tail || g.policy == POL_RR) {
    uint32_t q = g.in_tail ? 3 : g.rr_q;
    if (must || ++g.rr_used >= q) {
      g.rr_used = 0;
      int n = collect_candidates(cand, t->id);
      if (n)
        target = policy_choose(cand, n);
    }
  } else if (g.policy == POL_RANDOM) {
    if (must || g.r_sched.below(1024) < g.p_switch_num) {
      int n = collect_candidates(cand, t->id);
      if (n)
        target = cand[g.r_sched.below((uint32_t)n)];
    }
  } else { // PCT
    bool changed = must;
    if (must)
      pct_demote(t);
    if (g.r_sched.below(65536) < g.pct_q_num) {
      pct_demote(t);
      changed = true;
    }
    if (t->load_streak > 48 || t->run_streak > 1500) {
      pct_demote(t);
      changed = true;
    }
    (void)changed;
    // run the highest-priority candidate
    int best = t->stall_until > g.step ? -1 : t->id;
    for (int i = 0; i < g.nth; ++i) {
      if (i != t->id && is_candidate(g.th[i]) && (best < 0 || g.th[i].prio > g.th[best].prio))
        best = i;
    }
    if (best >= 0 && best != t->id)
      target = best;
  }
  if (target < 0 && t->stall_until > g.step)
    t->stall_until = 0; // nobody else can run
  if (target >= 0)
    record(D_SWITCH, target);
  return target;
}

// ------------------------------------------------------------------------------------------
// x86-TSO store buffers (fault kind SF_STORE_BUFFER).  One thread runs at a time, so without this
// every execution is sequentially consistent and a missing StoreLoad barrier (a seq_cst fence or
// store weakened to release/acq_rel, a Dekker-style "publish then check" without a full barrier)
// is invisible.  Here a non-seq_cst atomic store may sit in its thread's FIFO store buffer for a
// seeded number of points before it reaches memory: the storing thread sees it at once (store
// forwarding), other threads later, stores of one thread become visible in program order, and a
// locked instruction (RMW, CAS, seq_cst store = xchg), an mfence (seq_cst fence) or a kernel entry
// drains the buffer first.  That is the x86-TSO model; nothing weaker is modelled.
//
// Plain (non-atomic) stores are executed natively and cannot be buffered; a plain access of the
// storing thread that overlaps one of its pending entries drains its buffer first, which needs the
// plain-access instrumentation of the fine variants (buffering is off until a plain-access hook has
// been seen).  Stores to the running thread's own stack are never buffered (a frame may return and
// be reused by plain stores we do not see in uninstrumented code).
// ------------------------------------------------------------------------------------------
struct SbEnt {
  uintptr_t addr;
  uint64_t val;
  uint64_t due;
  uint8_t size;
};
struct StoreBuf {
  SbEnt e[16];
  int n;
};
static StoreBuf g_sb[kMaxThreads];
static int g_sb_pending;
static bool g_plain_hooks_seen;
int sim_tso_active;

static int g_sb_trace = -1;
static void sb_apply(const SbEnt& x) {
  if (g_sb_trace < 0)
    g_sb_trace = getenv("SIMRT_TSO_TRACE") ? 1 : 0;
  if (g_sb_trace)
    fprintf(stderr, "SB apply step %llu addr %lx size %d val %llx due %llu\n", (unsigned long long)g.step, (unsigned long)x.addr,
            x.size, (unsigned long long)x.val, (unsigned long long)x.due);
  switch (x.size) {
    case 1:
      __atomic_store_n((volatile uint8_t*)x.addr, (uint8_t)x.val, __ATOMIC_SEQ_CST);
      break;
    case 2:
      __atomic_store_n((volatile uint16_t*)x.addr, (uint16_t)x.val, __ATOMIC_SEQ_CST);
      break;
    case 4:
      __atomic_store_n((volatile uint32_t*)x.addr, (uint32_t)x.val, __ATOMIC_SEQ_CST);
      break;
    default:
      __atomic_store_n((volatile uint64_t*)x.addr, (uint64_t)x.val, __ATOMIC_SEQ_CST);
      break;
  }
}
static void sb_pop_front(StoreBuf& b) {
  sb_apply(b.e[0]);
  for (int i = 1; i < b.n; ++i)
    b.e[i - 1] = b.e[i];
  b.n--;
  g_sb_pending--;
}
static void sb_flush(int tid) {
  StoreBuf& b = g_sb[tid];
  while (b.n > 0)
    sb_pop_front(b);
}
static void sb_flush_all() {
  for (int i = 0; i < g.nth && g_sb_pending > 0; ++i)
    sb_flush(i);
}
static void sb_drain_due() {
  for (int i = 0; i < g.nth && g_sb_pending > 0; ++i) {
    StoreBuf& b = g_sb[i];
    while (b.n > 0 && b.e[0].due <= g.step)
      sb_pop_front(b);
  }
}
extern "C" void sim_tso_flush_self(void) {
  if (g_sb_pending && tl_self)
    sb_flush(tl_self->id);
}
extern "C" int sim_tso_forward(const volatile void* addr, int size, uint64_t* val) {
  SimThread* t = tl_self;
  if (!t)
    return 0;
  StoreBuf& b = g_sb[t->id];
  uintptr_t a = (uintptr_t)addr;
  for (int i = b.n - 1; i >= 0; --i) {
    const SbEnt& x = b.e[i];
    if (x.addr == a && x.size == size) {
      *val = x.val;
      return 1;
    }
    if (x.addr < a + (uintptr_t)size && a < x.addr + x.size) {
      sb_flush(t->id); // partial overlap: let memory sort it out
      return 0;
    }
  }
  return 0;
}
extern "C" int sim_tso_store(volatile void* addr, int size, uint64_t val, int mo) {
  SimThread* t = tl_self;
  if (!t || !g.active)
    return 0;
  if (mo == 5) { // seq_cst store: xchg
    sb_flush(t->id);
    return 0;
  }
  StoreBuf& b = g_sb[t->id];
  uint32_t d = 0;
  if (g.replay) {
    int64_t v;
    if (replay_take(D_STOREDELAY, &v) && v > 0)
      d = (uint32_t)v;
  } else if (g.faults_enabled && !g.in_tail && (g.faults_on & SF_BIT(SF_STORE_BUFFER)) && g_plain_hooks_seen) {
    char probe;
    uintptr_t sp = (uintptr_t)&probe, a = (uintptr_t)addr;
    bool ownStack = a + 4096 > sp && a < sp + (1u << 20);
    if (!ownStack && g.r_fault.below(2) == 0) {
      static const uint32_t ds[] = {4, 8, 16, 40, 100, 250, 600};
      d = ds[g.r_fault.below(7)];
    }
  }
  if (d == 0 && b.n == 0)
    return 0;
  if (b.n == 16)
    sb_pop_front(b);
  uint64_t due = g.step + d;
  if (b.n && b.e[b.n - 1].due > due)
    due = b.e[b.n - 1].due; // FIFO: never visible before an older store of the same thread
  if (d) {
    record(D_STOREDELAY, (int64_t)d);
    g.fired[SF_STORE_BUFFER]++;
  }
  SbEnt& x = b.e[b.n++];
  x.addr = (uintptr_t)addr;
  x.val = val;
  x.due = due;
  x.size = (uint8_t)size;
  g_sb_pending++;
  return 1;
}
extern "C" void sim_tso_free_range(const void* addr, size_t size) {
  if (!g_sb_pending)
    return;
  uintptr_t lo = (uintptr_t)addr, hi = lo + size;
  for (int i = 0; i < g.nth; ++i) {
    StoreBuf& b = g_sb[i];
    bool hit = false;
    for (int k = 0; k < b.n; ++k)
      if (b.e[k].addr >= lo && b.e[k].addr < hi)
        hit = true;
    if (hit)
      sb_flush(i); // (drains the whole buffer: order is kept)
  }
}
// a plain access by the running thread: if it overlaps one of its own pending stores, program order
// says the pending store comes first
static inline void sb_plain_access(SimThread* t, const void* addr, int size) {
  g_plain_hooks_seen = true;
  StoreBuf& b = g_sb[t->id];
  if (!b.n)
    return;
  uintptr_t a = (uintptr_t)addr;
  for (int k = 0; k < b.n; ++k)
    if (b.e[k].addr < a + (uintptr_t)size && a < b.e[k].addr + b.e[k].size) {
      sb_flush(t->id);
      return;
    }
}

// ------------------------------------------------------------------------------------------
// communication-point stalls.  The windows that matter are a few atomic operations wide and lie
// between one thread's accesses to a location and another thread's: when the running thread is
// about to operate on a location that a DIFFERENT thread touched within the last few hundred
// points (and one of the two operations writes), it may be held back for a short, seeded number
// of points *before* its operation takes effect, so the other thread can finish what it is in the
// middle of.  It is an ordinary pre-emption (recorded as a stall decision, replayed as one).
// ------------------------------------------------------------------------------------------
struct RecentAcc {
  uintptr_t addr;
  uint64_t step;
  int tid;
  bool write;
};
// Exact-match open-addressing table: whether two operations hit the same location must not depend on the
// numeric value of the address (a direct-mapped table made decisions depend on which unrelated addresses
// collide, and a few addresses - thread stacks - differ from run to run: found by `vcheck determinism`).
static const size_t kRecentSize = 1 << 15;
static RecentAcc g_recent[kRecentSize];
static RecentAcc g_recent_overflow;
static RecentAcc& recent_slot(uintptr_t a) {
  size_t h = (size_t)((a >> 2) * 0x9E3779B97F4A7C15ull >> 40) & (kRecentSize - 1);
  for (size_t k = 0; k < 256; ++k) {
    RecentAcc& e = g_recent[(h + k) & (kRecentSize - 1)];
    if (e.addr == a || e.addr == 0)
      return e;
  }
  g_recent_overflow.addr = 0; // table crowded around here: treat as never seen
  return g_recent_overflow;
}
static void conflict_point(SimThread* t, int kind, const void* addr) {
  uintptr_t a = (uintptr_t)addr;
  RecentAcc& e = recent_slot(a);
  bool isWrite = kind != SP_LOAD;
  // (an entry left by a thread that has exited is ignored: it cannot be in the middle of anything, and its
  // stack may have been handed to a new thread at the same or at a different address)
  if (!g.replay && g.conflict_q && g.faults_enabled && !g.in_tail && e.addr == a && e.tid != t->id &&
      g.th[e.tid].st != T_EXITED && g.step - e.step <= 300 && (isWrite || e.write) && t->stall_until <= g.step) {
    if (g.r_conf.below(1024) < g.conflict_q) {
      int cand[kMaxThreads];
      if (collect_candidates(cand, t->id) > 0) {
        int64_t param = 6 + (int64_t)g.r_conf.below(150);
        record(D_FAULT, (int64_t)SF_STALL | (param << 8));
        apply_fault(SF_STALL, param);
        g.conflict_stalls++;
      }
    }
  }
  e.addr = a;
  e.step = g.step;
  e.tid = t->id;
  e.write = isWrite;
}

extern "C" void sim_point(int kind, const void* addr) {
  SimThread* t = tl_self;
  if (!t || !g.active || t->st != T_RUNNABLE)
    return;
  advance(kind == SP_YIELD ? 1000 : (kind == SP_CLOCK ? 50 : 10));
  if (g_sb_pending) {
    // locks, semaphores, futexes and every other kernel entry drain the caller's store buffer
    if ((kind >= SP_FUTEX_WAIT && kind <= SP_SLEEP) || (kind >= SP_ONCE && kind <= SP_EVENT_WAKE))
      sb_flush(t->id);
    sb_drain_due();
  }
  t->points++;
  t->run_streak++;
  if (kind == SP_LOAD) {
    t->load_streak++;
    t->last_load_step = g.step;
  } else if (kind != SP_FENCE && kind != SP_USER && kind != SP_PCGUARD && kind != SP_PLAIN_R) {
    t->load_streak = 0;
    g.last_write_step = g.step;
  }
  if (g.watch_addr && addr == g.watch_addr && g.watch_cb)
    g.watch_cb(addr, kind, t->id);
  if (kind >= SP_LOAD && kind <= SP_CAS && t->mark_left > 0 && --t->mark_left == 0)
    t->mark_step = g.step;
  if (addr && kind >= SP_LOAD && kind <= SP_CAS)
    conflict_point(t, kind, addr);
  int target = decide_switch(t, false);
  if (target >= 0 && target != t->id)
    switch_to(target);
}

// ------------------------------------------------------------------------------------------
// SIM+ASAN engine: clang cannot combine the tsan pass with AddressSanitizer, so the atomic seam
// is unavailable there.  Instead the code under test is built with -fsanitize-coverage=
// trace-pc-guard and every instrumented edge counts down a per-thread quantum; at zero it is a
// simulation point (pre-emption at basic-block granularity; every loop has a back edge, so no
// spin loop can keep the token).  The quantum sequence is a pure function of (seed, thread id),
// independent of PRNG/replay mode, so step numbers line up in a replay.
// ------------------------------------------------------------------------------------------
// Per-guard classification (lazily, by the symbol the guard lives in): 1 = code under test,
// 2 = C++ standard library instantiation.  The linker keeps ONE copy of every inline/template
// function, so a std::vector<int>::resize called from (uninstrumented) harness code may well be the
// instrumented copy emitted by a dispenso .cpp file; the harness's own bookkeeping must never be
// pre-empted in the middle of a container operation, so guards inside std:: code are not points.
static uint8_t* g_guard_cls;
static uint32_t g_guard_n;
extern "C" void __sanitizer_cov_trace_pc_guard_init(uint32_t* start, uint32_t* stop) {
  for (uint32_t* p = start; p < stop; ++p)
    if (!*p)
      *p = ++g_guard_n;
  g_guard_cls = (uint8_t*)realloc(g_guard_cls, g_guard_n + 1);
  memset(g_guard_cls, 0, g_guard_n + 1);
}
// Symbol lookup through the executable's own .symtab (covers internal-linkage functions and
// lambdas, which dladdr cannot see).
struct SymEnt {
  uintptr_t lo, hi;
  const char* name; // into the (kept) mapping of the executable's string table
  uint8_t cls;
};
static SymEnt* g_syms;
static size_t g_nsyms;
static bool has_prefix(const char* s, const char* p) {
  return !strncmp(s, p, strlen(p));
}
static uint8_t classify_name(const char* s) {
  // C++ standard library and its helpers: never a pre-emption point (see above)
  if (has_prefix(s, "_ZNSt") || has_prefix(s, "_ZNKSt") || has_prefix(s, "_ZSt") || has_prefix(s, "_ZN9__gnu_cxx") ||
      has_prefix(s, "_ZNK9__gnu_cxx") || has_prefix(s, "_ZNSa") || has_prefix(s, "_ZNSs") || has_prefix(s, "_ZZNSt") ||
      has_prefix(s, "_ZZNKSt") || has_prefix(s, "_ZNVSt") || has_prefix(s, "_ZNSi") || has_prefix(s, "_ZNSo"))
    return 2;
  // harness code: workload files keep everything in an anonymous namespace, helpers live in hx::
  if (has_prefix(s, "_ZN12_GLOBAL__N_1") || has_prefix(s, "_ZNK12_GLOBAL__N_1") || has_prefix(s, "_ZZN12_GLOBAL__N_1") ||
      has_prefix(s, "_ZZNK12_GLOBAL__N_1") || has_prefix(s, "_ZN2hx") || has_prefix(s, "_ZNK2hx") || has_prefix(s, "_ZZN2hx") ||
      has_prefix(s, "_ZL") || !strcmp(s, "main"))
    return 2;
  return 1;
}
#include <elf.h>
#include <link.h>
#include <sys/mman.h>
#include <sys/stat.h>
static int phdr_cb(struct dl_phdr_info* info, size_t, void* data) {
  *(uintptr_t*)data = (uintptr_t)info->dlpi_addr; // first entry = main program
  return 1;
}
static void load_symtab() {
  static bool done;
  if (done)
    return;
  done = true;
  uintptr_t bias = 0;
  dl_iterate_phdr(phdr_cb, &bias);
  int fd = open("/proc/self/exe", O_RDONLY);
  if (fd < 0)
    return;
  struct stat sb;
  if (fstat(fd, &sb) != 0) {
    close(fd);
    return;
  }
  char* base = (char*)mmap(nullptr, (size_t)sb.st_size, PROT_READ, MAP_PRIVATE, fd, 0);
  close(fd);
  if (base == MAP_FAILED)
    return;
  Elf64_Ehdr* eh = (Elf64_Ehdr*)base;
  Elf64_Shdr* sh = (Elf64_Shdr*)(base + eh->e_shoff);
  for (int i = 0; i < eh->e_shnum; ++i) {
    if (sh[i].sh_type != SHT_SYMTAB)
      continue;
    Elf64_Sym* syms = (Elf64_Sym*)(base + sh[i].sh_offset);
    size_t n = sh[i].sh_size / sizeof(Elf64_Sym);
    const char* str = base + sh[sh[i].sh_link].sh_offset;
    g_syms = (SymEnt*)malloc(n * sizeof(SymEnt));
    for (size_t k = 0; k < n; ++k) {
      if (ELF64_ST_TYPE(syms[k].st_info) != STT_FUNC || !syms[k].st_size)
        continue;
      SymEnt e;
      e.lo = bias + syms[k].st_value;
      e.hi = e.lo + syms[k].st_size;
      e.name = str + syms[k].st_name;
      e.cls = classify_name(e.name);
      g_syms[g_nsyms++] = e;
    }
    std::sort(g_syms, g_syms + g_nsyms, [](const SymEnt& a, const SymEnt& b) { return a.lo < b.lo; });
  }
  // (the mapping stays: symbol names point into it)
}
// mangled name of the function containing pc, or null (used by the race detector's reports)
extern "C" const char* sim_symbol_of(void* pc) {
  load_symtab();
  uintptr_t a = (uintptr_t)pc;
  size_t lo = 0, hi = g_nsyms;
  while (lo < hi) {
    size_t mid = (lo + hi) / 2;
    if (g_syms[mid].lo <= a)
      lo = mid + 1;
    else
      hi = mid;
  }
  if (lo > 0 && a < g_syms[lo - 1].hi)
    return g_syms[lo - 1].name;
  return nullptr;
}
static uint8_t classify_guard(void* pc) {
  load_symtab();
  uintptr_t a = (uintptr_t)pc;
  size_t lo = 0, hi = g_nsyms;
  while (lo < hi) {
    size_t mid = (lo + hi) / 2;
    if (g_syms[mid].lo <= a)
      lo = mid + 1;
    else
      hi = mid;
  }
  if (lo > 0 && a < g_syms[lo - 1].hi)
    return g_syms[lo - 1].cls;
  return 1;
}

// "fine" variants: plain memory accesses of code under test are points (see tsan_shim.cpp)
struct PcCache {
  uintptr_t pc;
  uint8_t cls;
};
static PcCache g_pc_cache[1 << 16];
extern "C" void sim_plain_point(void* pc, const void* addr, int is_write) {
  sim_plain_point_n(pc, addr, is_write, 1);
}
extern "C" void sim_plain_point_n(void* pc, const void* addr, int is_write, int size) {
  SimThread* t = tl_self;
  if (!t || !g.active || t->st != T_RUNNABLE)
    return;
  sb_plain_access(t, addr, size);
  uintptr_t a = (uintptr_t)pc;
  PcCache& e = g_pc_cache[(a >> 2) & 0xffff];
  if (e.pc != a) {
    e.pc = a;
    e.cls = classify_guard(pc);
  }
  if (e.cls != 1)
    return;
  sim_point(is_write ? SP_PLAIN_W : SP_PLAIN_R, addr);
  // (after the point: the access itself happens when this thread continues)
  if (rd_on())
    rd_access(t->id, pc, addr, (size_t)size, is_write);
}

extern "C" void __sanitizer_cov_trace_pc_guard(uint32_t* guard) {
  SimThread* t = tl_self;
  if (!t || !g_pcq_max || !g.active || t->st != T_RUNNABLE)
    return;
  uint32_t id = *guard;
  if (id <= g_guard_n) {
    uint8_t c = g_guard_cls[id];
    if (!c)
      c = g_guard_cls[id] = classify_guard(__builtin_return_address(0));
    if (c == 2)
      return;
  }
  if (--t->pcq > 0)
    return;
  t->pcq_rng = t->pcq_rng * 6364136223846793005ull + 1442695040888963407ull;
  t->pcq = 1 + (int)((t->pcq_rng >> 33) % (uint64_t)g_pcq_max);
  sim_point(SP_PCGUARD, nullptr);
}

// ------------------------------------------------------------------------------------------
// wake choice (which waiter does the "kernel" pick)
// ------------------------------------------------------------------------------------------
// waiters[] in FIFO order (by block time = wgen order is not global; use a global block seq)
static int choose_waiter(int n) {
  if (n <= 1)
    return 0;
  int choice = 0;
  if (g.replay) {
    int64_t v;
    if (replay_take(D_WAKECHOICE, &v) && v >= 0 && v < n)
      choice = (int)v;
  } else if (g.faults_enabled && (g.faults_on & SF_BIT(SF_WAKE_CHOICE))) {
    if (g.wake_policy == 1)
      choice = n - 1;
    else if (g.wake_policy == 2)
      choice = (int)g.r_kernel.below((uint32_t)n);
  }
  if (choice != 0) {
    record(D_WAKECHOICE, choice);
    g.fired[SF_WAKE_CHOICE]++;
  }
  return choice;
}

struct WaitOrder {
  uint64_t seq;
  int tid;
};
static uint64_t g_block_seq;

static int collect_waiters(int wk, const void* addr, int* out) {
  // FIFO by the order they blocked: we keep per-thread block sequence in deadline-independent field
  WaitOrder w[kMaxThreads];
  int n = 0;
  for (int i = 0; i < g.nth; ++i) {
    SimThread& t = g.th[i];
    if (t.st == T_BLOCKED && t.wk == wk && t.waddr == addr)
      w[n++] = WaitOrder{t.block_seq, i};
  }
  std::sort(w, w + n, [](const WaitOrder& a, const WaitOrder& b) { return a.seq < b.seq; });
  for (int i = 0; i < n; ++i)
    out[i] = w[i].tid;
  return n;
}

static int wake_n(int wk, const void* addr, int count) {
  int w[kMaxThreads];
  int n = collect_waiters(wk, addr, w);
  int woken = 0;
  while (n > 0 && woken < count) {
    int c = choose_waiter(n);
    make_runnable(&g.th[w[c]], WR_WOKEN);
    for (int i = c; i + 1 < n; ++i)
      w[i] = w[i + 1];
    --n;
    ++woken;
  }
  return woken;
}

static int block_on(int wk, const void* addr, uint64_t deadline) {
  SimThread* t = self();
  t->block_seq = ++g_block_seq;
  // per-wait spurious wake-up: decided when the wait begins (short workloads never live long enough to
  // meet one of the periodic fault opportunities), delivered by a timer before the real deadline
  t->spur_wake = false;
  if (wk == SW_FUTEX || wk == SW_COND) {
    int kind = wk == SW_FUTEX ? SF_SPURIOUS_FUTEX : SF_SPURIOUS_COND;
    uint64_t d = 0;
    if (g.replay) {
      int64_t v;
      if (replay_take(D_SPURWAIT, &v) && v > 0)
        d = (uint64_t)v;
    } else if (g.faults_enabled && !g.in_tail && (g.faults_on & SF_BIT(kind)) && g.r_fault.below(8) == 0) {
      static const uint64_t ds[] = {50, 500, 5000, 50000, 500000, 5000000};
      d = ds[g.r_fault.below(6)];
    }
    if (d && (!deadline || g.now + d < deadline)) {
      record(D_SPURWAIT, (int64_t)d);
      g.fired[kind]++;
      t->spur_wake = true;
      deadline = g.now + d;
    }
  }
  int r = block_current(wk, addr, deadline);
  t->spur_wake = false;
  t->quiet = false;
  return r;
}

static uint64_t late(uint64_t deadline) {
  // late_timer fault: timers only promise "not before"
  if (g.replay) {
    int64_t v;
    if (replay_take(D_LATE, &v)) {
      g.fired[SF_LATE_TIMER]++;
      record(D_LATE, v);
      return deadline + (uint64_t)v;
    }
    return deadline;
  }
  if (g.faults_enabled && (g.faults_on & SF_BIT(SF_LATE_TIMER)) && g.r_fault.below(8) == 0) {
    static const uint64_t d[] = {100, 1000, 10000, 100000, 1000000, 20000000};
    uint64_t delta = d[g.r_fault.below(6)];
    g.fired[SF_LATE_TIMER]++;
    record(D_LATE, (int64_t)delta);
    return deadline + delta;
  }
  return deadline;
}

// ------------------------------------------------------------------------------------------
// futex model
// ------------------------------------------------------------------------------------------
static bool ts_valid(const struct timespec* ts) {
  return ts->tv_sec >= 0 && ts->tv_nsec >= 0 && ts->tv_nsec < 1000000000L;
}
static uint64_t ts_ns(const struct timespec* ts) {
  // saturate
  if ((uint64_t)ts->tv_sec > 9000000000ull)
    return UINT64_MAX / 4;
  return (uint64_t)ts->tv_sec * 1000000000ull + (uint64_t)ts->tv_nsec;
}

static long sim_futex(int* uaddr, int op, int val, const struct timespec* ts, int* uaddr2, int val3) {
  (void)uaddr2;
  (void)val3;
  int cmd = op & ~(FUTEX_PRIVATE_FLAG | FUTEX_CLOCK_REALTIME);
  if (cmd == FUTEX_WAIT || cmd == FUTEX_WAIT_BITSET) {
    sim_point(SP_FUTEX_WAIT, uaddr);
    if (__atomic_load_n(uaddr, __ATOMIC_SEQ_CST) != val) {
      errno = EAGAIN;
      return -1;
    }
    uint64_t deadline = 0;
    if (ts) {
      if (!ts_valid(ts)) {
        errno = EINVAL;
        return -1;
      }
      uint64_t ns = ts_ns(ts);
      if (cmd == FUTEX_WAIT_BITSET) {
        // absolute (monotonic or realtime, both map to sim clock + offset handled by caller)
        deadline = ns > g.now ? ns : g.now + 1;
      } else {
        deadline = g.now + ns;
        if (deadline < g.now)
          deadline = UINT64_MAX / 2;
      }
      if (deadline <= g.now)
        deadline = g.now + 1;
      deadline = late(deadline);
    }
    // immediate spurious return (EINTR-style) is covered by spurious_futex while blocked
    int r = block_on(SW_FUTEX, uaddr, deadline);
    if (r == WR_TIMEOUT) {
      errno = ETIMEDOUT;
      return -1;
    }
    if (r == WR_SPURIOUS) {
      bool eintr;
      int64_t v;
      if (g.replay)
        eintr = replay_take(D_EINTR, &v);
      else
        eintr = g.r_kernel.below(2) != 0;
      if (eintr) {
        record(D_EINTR, 1);
        g.fired[SF_EINTR_FUTEX]++;
        errno = EINTR;
        return -1;
      }
    }
    return 0;
  }
  if (cmd == FUTEX_WAKE || cmd == FUTEX_WAKE_BITSET) {
    sim_point(SP_FUTEX_WAKE, uaddr);
    return wake_n(SW_FUTEX, uaddr, val < 0 ? 0 : val);
  }
  errno = ENOSYS;
  return -1;
}

extern "C" long syscall(long number, ...) {
  va_list ap;
  va_start(ap, number);
  long a = va_arg(ap, long), b = va_arg(ap, long), c = va_arg(ap, long), d = va_arg(ap, long),
       e = va_arg(ap, long), f = va_arg(ap, long);
  va_end(ap);
  if (simulated()) {
    if (number == SYS_futex)
      return sim_futex((int*)a, (int)b, (int)c, (const struct timespec*)d, (int*)e, (int)f);
    if (number == SYS_clock_gettime)
      return clock_gettime((clockid_t)a, (struct timespec*)b);
    if (number == SYS_sched_yield)
      return sched_yield();
  }
  long r = raw_syscall6(number, a, b, c, d, e, f);
  if (r < 0 && r > -4096) {
    errno = (int)-r;
    return -1;
  }
  return r;
}

// ------------------------------------------------------------------------------------------
// mutex model
// ------------------------------------------------------------------------------------------
static MutexEnt* mutex_find(const void* addr) {
  for (auto& m : *g.mutexes)
    if (m.addr == addr)
      return &m;
  return nullptr;
}
static bool is_recursive(const void* addr) {
  for (auto* p : *g.recursive_mutexes)
    if (p == addr)
      return true;
  return false;
}
static void mutex_remove(MutexEnt* m) {
  *m = g.mutexes->back();
  g.mutexes->pop_back();
}

static int model_mutex_lock(pthread_mutex_t* mu, bool tryonly) {
  SimThread* t = self();
  for (;;) {
    MutexEnt* m = mutex_find(mu);
    if (!m) {
      g.mutexes->push_back(MutexEnt{mu, t->id, 1, is_recursive(mu)});
      rd_acquire(t->id, mu);
      return 0;
    }
    if (m->owner == t->id) {
      if (m->recursive) {
        m->count++;
        return 0;
      }
      if (tryonly)
        return EBUSY;
      sim_fail("self-deadlock", "thread %d relocks non-recursive mutex %p", t->id, (void*)mu);
    }
    if (tryonly)
      return EBUSY;
    block_on(SW_MUTEX, mu, 0);
  }
}
static int model_mutex_unlock(pthread_mutex_t* mu) {
  SimThread* t = self();
  MutexEnt* m = mutex_find(mu);
  if (!m || m->owner != t->id)
    return EPERM;
  if (--m->count > 0)
    return 0;
  rd_release(t->id, mu);
  mutex_remove(m);
  // wake all waiters: they re-contend (barging allowed); order among them is a scheduling choice
  wake_n(SW_MUTEX, mu, 1 << 30);
  return 0;
}

extern "C" int pthread_mutex_lock(pthread_mutex_t* mu) {
  if (!simulated())
    return real_pthread_mutex_lock()(mu);
  sim_point(SP_MUTEX_LOCK, mu);
  return model_mutex_lock(mu, false);
}
extern "C" int pthread_mutex_trylock(pthread_mutex_t* mu) {
  if (!simulated())
    return real_pthread_mutex_trylock()(mu);
  sim_point(SP_MUTEX_LOCK, mu);
  return model_mutex_lock(mu, true);
}
extern "C" int pthread_mutex_unlock(pthread_mutex_t* mu) {
  if (!simulated())
    return real_pthread_mutex_unlock()(mu);
  int r = model_mutex_unlock(mu);
  sim_point(SP_MUTEX_UNLOCK, mu);
  return r;
}
extern "C" int pthread_mutex_init(pthread_mutex_t* mu, const pthread_mutexattr_t* attr) {
  int r = real_pthread_mutex_init()(mu, attr);
  if (g.active && attr) {
    int type = 0;
    pthread_mutexattr_gettype(attr, &type);
    if (type == PTHREAD_MUTEX_RECURSIVE)
      g.recursive_mutexes->push_back(mu);
  }
  return r;
}
extern "C" int pthread_mutex_destroy(pthread_mutex_t* mu) {
  if (g.active) {
    auto& v = *g.recursive_mutexes;
    for (size_t i = 0; i < v.size(); ++i)
      if (v[i] == mu) {
        v[i] = v.back();
        v.pop_back();
        break;
      }
    return 0;
  }
  return real_pthread_mutex_destroy()(mu);
}

// ------------------------------------------------------------------------------------------
// condvar model
// ------------------------------------------------------------------------------------------
static int model_cond_wait(pthread_cond_t* cv, pthread_mutex_t* mu, uint64_t deadline) {
  sim_point(SP_COND_WAIT, cv);
  // non-recursive assumed for cond waits
  MutexEnt* m = mutex_find(mu);
  if (!m || m->owner != self()->id)
    sim_fail("cond-wait-unlocked", "cond wait without holding the mutex");
  int saved = m->count;
  m->count = 1;
  model_mutex_unlock(mu);
  int r = block_on(SW_COND, cv, deadline ? late(deadline) : 0);
  model_mutex_lock(mu, false);
  m = mutex_find(mu);
  if (m)
    m->count = saved;
  return r == WR_TIMEOUT ? ETIMEDOUT : 0;
}
static uint64_t abs_to_deadline(clockid_t clk, const struct timespec* ts);

extern "C" int pthread_cond_wait(pthread_cond_t* cv, pthread_mutex_t* mu) {
  if (!simulated())
    return real_pthread_cond_wait()(cv, mu);
  return model_cond_wait(cv, mu, 0);
}
extern "C" int pthread_cond_timedwait(pthread_cond_t* cv, pthread_mutex_t* mu, const struct timespec* ts) {
  if (!simulated())
    return real_pthread_cond_timedwait()(cv, mu, ts);
  if (!ts_valid(ts))
    return EINVAL;
  return model_cond_wait(cv, mu, abs_to_deadline(CLOCK_REALTIME, ts));
}
extern "C" int pthread_cond_clockwait(pthread_cond_t* cv, pthread_mutex_t* mu, clockid_t clk,
                                      const struct timespec* ts) {
  if (!simulated())
    return real_pthread_cond_clockwait()(cv, mu, clk, ts);
  if (!ts_valid(ts))
    return EINVAL;
  return model_cond_wait(cv, mu, abs_to_deadline(clk, ts));
}
extern "C" int pthread_cond_signal(pthread_cond_t* cv) {
  if (!simulated())
    return real_pthread_cond_signal()(cv);
  sim_point(SP_COND_SIGNAL, cv);
  wake_n(SW_COND, cv, 1);
  return 0;
}
extern "C" int pthread_cond_broadcast(pthread_cond_t* cv) {
  if (!simulated())
    return real_pthread_cond_broadcast()(cv);
  sim_point(SP_COND_SIGNAL, cv);
  wake_n(SW_COND, cv, 1 << 30);
  return 0;
}

// ------------------------------------------------------------------------------------------
// semaphore model
// ------------------------------------------------------------------------------------------
static SemEnt* sem_find(const void* a) {
  for (auto& s : *g.sems)
    if (s.addr == a)
      return &s;
  return nullptr;
}
extern "C" int sem_init(sem_t* s, int pshared, unsigned value) {
  if (!simulated())
    return real_sem_init()(s, pshared, value);
  SemEnt* e = sem_find(s);
  if (e)
    e->count = (long)value;
  else
    g.sems->push_back(SemEnt{s, (long)value});
  return 0;
}
extern "C" int sem_destroy(sem_t* s) {
  if (!simulated())
    return real_sem_destroy()(s);
  SemEnt* e = sem_find(s);
  if (e) {
    *e = g.sems->back();
    g.sems->pop_back();
  }
  return 0;
}
static int model_sem_wait(sem_t* s, bool tryonly, uint64_t deadline) {
  sim_point(SP_SEM_WAIT, s);
  for (;;) {
    SemEnt* e = sem_find(s);
    if (!e) {
      g.sems->push_back(SemEnt{s, 0});
      e = &g.sems->back();
    }
    if (e->count > 0) {
      e->count--;
      rd_acquire(self()->id, s);
      return 0;
    }
    if (tryonly) {
      errno = EAGAIN;
      return -1;
    }
    int r = block_on(SW_SEM, s, deadline);
    if (r == WR_TIMEOUT) {
      errno = ETIMEDOUT;
      return -1;
    }
    if (r == WR_SPURIOUS) {
      errno = EINTR;
      return -1;
    }
  }
}
extern "C" int sem_wait(sem_t* s) {
  if (!simulated())
    return real_sem_wait()(s);
  return model_sem_wait(s, false, 0);
}
extern "C" int sem_trywait(sem_t* s) {
  if (!simulated())
    return real_sem_trywait()(s);
  return model_sem_wait(s, true, 0);
}
extern "C" int sem_timedwait(sem_t* s, const struct timespec* ts) {
  if (!simulated())
    return real_sem_timedwait()(s, ts);
  if (!ts_valid(ts)) {
    errno = EINVAL;
    return -1;
  }
  return model_sem_wait(s, false, late(abs_to_deadline(CLOCK_REALTIME, ts)));
}
extern "C" int sem_post(sem_t* s) {
  if (!simulated())
    return real_sem_post()(s);
  sim_point(SP_SEM_POST, s);
  SemEnt* e = sem_find(s);
  if (!e) {
    g.sems->push_back(SemEnt{s, 0});
    e = &g.sems->back();
  }
  e->count++;
  rd_release(self()->id, s);
  wake_n(SW_SEM, s, 1);
  return 0;
}

// ------------------------------------------------------------------------------------------
// pthread_once model
// ------------------------------------------------------------------------------------------
extern "C" int pthread_once(pthread_once_t* once, void (*init)(void)) {
  if (!simulated())
    return real_pthread_once()(once, init);
  sim_point(SP_ONCE, once);
  for (;;) {
    if (*(volatile int*)once == 2) {
      rd_acquire(self()->id, once);
      return 0;
    }
    OnceEnt* found = nullptr;
    for (auto& o : *g.onces)
      if (o.addr == once)
        found = &o;
    if (!found) {
      g.onces->push_back(OnceEnt{once, self()->id});
      init();
      rd_release(self()->id, once);
      *(volatile int*)once = 2;
      for (size_t i = 0; i < g.onces->size(); ++i)
        if ((*g.onces)[i].addr == once) {
          (*g.onces)[i] = g.onces->back();
          g.onces->pop_back();
          break;
        }
      wake_n(SW_ONCE, once, 1 << 30);
      return 0;
    }
    block_on(SW_ONCE, once, 0);
  }
}

// ------------------------------------------------------------------------------------------
// threads
// ------------------------------------------------------------------------------------------
static void sim_thread_exit(SimThread* t) {
  // called with the token, after the thread function and all thread_local destructors ran
  if (!g.active || t->st == T_EXITED)
    return;
  advance(10);
  sb_flush(t->id);
  t->st = T_EXITED;
  t->wk = SW_NONE;
  // wake joiners
  for (int i = 0; i < g.nth; ++i)
    if (g.th[i].st == T_BLOCKED && g.th[i].wk == SW_JOIN && g.th[i].waddr == t)
      make_runnable(&g.th[i], WR_WOKEN);
  if (g.tracef)
    fprintf(g.tracef, "%llu exit t%d\n", (unsigned long long)g.step, t->id);
  fp_mix(0xE000 + (uint64_t)t->id);
  int next = pick_next_after_block();
  g.reap = t;
  g.cur = next;
  g.switches++;
  tl_self = nullptr;
  release(&g.th[next]);
}

static void exit_key_dtor(void* p) {
  SimThread* t = (SimThread*)p;
  if (t && tl_self == t)
    sim_thread_exit(t);
}

static pthread_t fake_handle(int id);

static void* trampoline(void* p) {
  SimThread* t = (SimThread*)p;
  tl_self = t;
  park_wait(t);
  pthread_setspecific(g_exit_key, t);
  if (rd_on()) {
    pthread_attr_t at;
    if (pthread_getattr_np(pthread_self(), &at) == 0) {
      void* lo = nullptr;
      size_t sz = 0;
      if (pthread_attr_getstack(&at, &lo, &sz) == 0) {
        // The stack (and the static TLS block inside it) may be recycled from a thread that has
        // exited.  glibc hands it over only after that thread is completely gone, so this thread
        // is ordered after it (moodycamel even keys its per-thread producers by a TLS address and
        // lets the new thread continue the dead one's sub-queue); the old access history is dropped.
        t->stack_lo = (uintptr_t)lo;
        t->stack_hi = (uintptr_t)lo + sz;
        for (int i = 0; i < g.nth; ++i) {
          SimThread* o = &g.th[i];
          if (o != t && o->st == T_EXITED && o->stack_lo < t->stack_hi && t->stack_lo < o->stack_hi)
            rd_thread_join(t->id, o->id);
        }
        rd_clear(lo, sz);
      }
      pthread_attr_destroy(&at);
    }
  }
  t->ret = t->fn(t->arg);
  return t->ret;
}

extern "C" int pthread_create(pthread_t* th, const pthread_attr_t* attr, void* (*fn)(void*), void* arg) {
  if (!simulated())
    return real_pthread_create()(th, attr, fn, arg);
  sim_point(SP_THREAD_CREATE, nullptr);
  if (g.nth >= kMaxThreads)
    sim_fail("too-many-threads", "simulated thread table exhausted");
  SimThread* nt = &g.th[g.nth];
  memset(nt, 0, sizeof *nt);
  nt->id = g.nth;
  nt->fn = fn;
  nt->arg = arg;
  nt->st = T_RUNNABLE;
  nt->prio = (int64_t)(g.r_sched.next() >> 16);
  nt->pcq_rng = mix64(g.opts.seed, 1000 + (uint64_t)nt->id);
  nt->pcq = 1;
  int rc = real_pthread_create()(&nt->real, attr, trampoline, nt);
  if (rc)
    return rc;
  nt->has_real = true;
  g.nth++;
  rd_thread_create(self()->id, nt->id);
  int live = 0;
  for (int i = 0; i < g.nth; ++i)
    if (g.th[i].st != T_EXITED)
      live++;
  if (live > g.max_threads_live)
    g.max_threads_live = live;
  *th = fake_handle(nt->id);
  fp_mix(0xC000 + (uint64_t)nt->id);
  // slow_start fault: the new thread does not get to run for a while
  bool slow = false;
  uint64_t delay = 0;
  if (g.replay) {
    int64_t v;
    if (replay_take(D_SLOW, &v)) {
      slow = true;
      delay = (uint64_t)v;
    }
  } else if (g.faults_enabled && (g.faults_on & SF_BIT(SF_SLOW_START)) && g.r_fault.below(6) == 0) {
    static const uint64_t d[] = {1000, 20000, 200000, 2000000, 50000000};
    slow = true;
    delay = d[g.r_fault.below(5)];
  }
  if (slow) {
    record(D_SLOW, (int64_t)delay);
    g.fired[SF_SLOW_START]++;
    nt->st = T_BLOCKED;
    nt->wk = SW_START;
    nt->wgen++;
    timer_add(g.now + delay, nt);
  }
  return 0;
}

// Simulated threads are named by synthetic handles: real pthread_t values are recycled by glibc
// as soon as a thread has been reaped, which we do eagerly at simulated exit (for deterministic
// memory reuse), i.e. possibly before the program joins it.
static const unsigned long kFakeHandleBase = 0x51d0000000000000ul;
static pthread_t fake_handle(int id) {
  return (pthread_t)(kFakeHandleBase + (unsigned long)id);
}
static SimThread* find_by_real(pthread_t th) {
  unsigned long v = (unsigned long)th;
  if (v >= kFakeHandleBase && v < kFakeHandleBase + (unsigned long)g.nth)
    return &g.th[v - kFakeHandleBase];
  return nullptr;
}

extern "C" int pthread_join(pthread_t th, void** ret) {
  if (!simulated())
    return real_pthread_join()(th, ret);
  SimThread* t = find_by_real(th);
  if (!t)
    return real_pthread_join()(th, ret);
  sim_point(SP_THREAD_JOIN, t);
  while (t->st != T_EXITED)
    block_on(SW_JOIN, t, 0);
  if (!t->reaped) {
    // can only happen if the exiting thread handed the token straight to us and after_resume ran
    // for a different reap target; be safe
    void* r;
    real_pthread_join()(t->real, &r);
    t->reaped = true;
    if (g.reap == t)
      g.reap = nullptr;
  }
  t->joined = true;
  rd_thread_join(self()->id, t->id);
  if (ret)
    *ret = t->ret;
  return 0;
}
extern "C" int pthread_detach(pthread_t th) {
  if (!simulated())
    return real_pthread_detach()(th);
  SimThread* t = find_by_real(th);
  if (!t)
    return real_pthread_detach()(th);
  t->detached = true; // reaped by whoever receives the token at its exit
  return 0;
}

extern "C" int sched_yield(void) {
  if (!simulated())
    return real_sched_yield()();
  SimThread* t = self();
  advance(1000);
  t->points++;
  // quiet-spin detection: if every runnable thread has completed a yield-to-yield iteration
  // without anybody writing shared state, nothing can change until a timer fires.
  t->quiet = g.last_write_step < t->last_yield_step;
  t->last_yield_step = g.step;
  if (t->quiet && g.timer_min != UINT64_MAX) {
    bool all = true;
    for (int i = 0; i < g.nth; ++i) {
      SimThread& o = g.th[i];
      if (o.st == T_RUNNABLE && !(o.quiet && o.last_yield_step > g.last_write_step)) {
        all = false;
        break;
      }
    }
    if (all) {
      Timer tm;
      if (timer_pop_valid(&tm)) {
        if (tm.deadline > g.now)
          g.now = tm.deadline;
        g.idle_jumps++;
        g.in_idle = true;
        fire_timer(tm);
        fire_due_timers();
        g.in_idle = false;
        g.last_write_step = g.step;
      }
    }
  }
  bool noop = false;
  if (g.replay) {
    int64_t v;
    noop = replay_take(D_YIELDNOOP, &v);
  } else if (g.faults_enabled && (g.faults_on & SF_BIT(SF_YIELD_NOOP)) && g.r_fault.below(4) == 0) {
    noop = true;
  }
  if (noop) {
    g.fired[SF_YIELD_NOOP]++;
    record(D_YIELDNOOP, 1);
  }
  int target = decide_switch(t, !noop);
  if (target >= 0 && target != t->id)
    switch_to(target);
  return 0;
}

// ------------------------------------------------------------------------------------------
// clock & sleep
// ------------------------------------------------------------------------------------------
static const uint64_t kRealtimeOffsetNs = 1700000000ull * 1000000000ull;
extern "C" uint64_t sim_realtime_offset_ns(void) {
  return kRealtimeOffsetNs;
}

static uint64_t abs_to_deadline(clockid_t clk, const struct timespec* ts) {
  uint64_t ns = ts_ns(ts);
  if (clk == CLOCK_REALTIME || clk == CLOCK_REALTIME_COARSE) {
    ns = ns > kRealtimeOffsetNs ? ns - kRealtimeOffsetNs : 0;
  }
  if (ns <= g.now)
    ns = g.now + 1;
  return ns;
}

extern "C" int clock_gettime(clockid_t clk, struct timespec* ts) {
  if (!simulated())
    return real_clock_gettime()(clk, ts);
  sim_point(SP_CLOCK, nullptr);
  uint64_t ns = g.now;
  if (clk == CLOCK_REALTIME || clk == CLOCK_REALTIME_COARSE)
    ns += kRealtimeOffsetNs;
  ts->tv_sec = (time_t)(ns / 1000000000ull);
  ts->tv_nsec = (long)(ns % 1000000000ull);
  return 0;
}
extern "C" int gettimeofday(struct timeval* tv, void* tz) {
  if (!simulated())
    return real_gettimeofday()(tv, tz);
  sim_point(SP_CLOCK, nullptr);
  uint64_t ns = g.now + kRealtimeOffsetNs;
  tv->tv_sec = (time_t)(ns / 1000000000ull);
  tv->tv_usec = (suseconds_t)((ns % 1000000000ull) / 1000);
  return 0;
}
extern "C" time_t time(time_t* t) {
  if (!simulated())
    return real_time()(t);
  time_t v = (time_t)((g.now + kRealtimeOffsetNs) / 1000000000ull);
  if (t)
    *t = v;
  return v;
}

extern "C" void sim_sleep_ns(uint64_t ns) {
  if (!simulated())
    return;
  sim_point(SP_SLEEP, nullptr);
  if (!ns)
    return;
  block_on(SW_SLEEP, nullptr, late(g.now + ns));
}
extern "C" int nanosleep(const struct timespec* req, struct timespec* rem) {
  if (!simulated())
    return real_nanosleep()(req, rem);
  if (!ts_valid(req)) {
    errno = EINVAL;
    return -1;
  }
  sim_sleep_ns(ts_ns(req));
  if (rem) {
    rem->tv_sec = 0;
    rem->tv_nsec = 0;
  }
  return 0;
}
extern "C" int clock_nanosleep(clockid_t clk, int flags, const struct timespec* req, struct timespec* rem) {
  if (!simulated())
    return real_clock_nanosleep()(clk, flags, req, rem);
  if (!ts_valid(req))
    return EINVAL;
  if (flags & TIMER_ABSTIME) {
    uint64_t d = abs_to_deadline(clk, req);
    sim_point(SP_SLEEP, nullptr);
    if (d > g.now)
      block_on(SW_SLEEP, nullptr, late(d));
  } else {
    sim_sleep_ns(ts_ns(req));
  }
  return 0;
}
extern "C" int usleep(useconds_t us) {
  if (!simulated())
    return real_usleep()(us);
  sim_sleep_ns((uint64_t)us * 1000);
  return 0;
}
extern "C" double dispenso_verif_sim_now(void) {
  if (!simulated())
    return 1e-9 * (double)g.now;
  sim_point(SP_CLOCK, nullptr);
  return 1e-9 * (double)g.now;
}

// priority / affinity / topology: no-ops or fixed answers so a replay is host independent
extern "C" int pthread_setschedparam(pthread_t, int, const struct sched_param*) {
  return 0;
}
extern "C" int nice(int) {
  return 0;
}
extern "C" int setpriority(int, unsigned, int) {
  return 0;
}

// ------------------------------------------------------------------------------------------
// harness API
// ------------------------------------------------------------------------------------------
extern "C" void sim_opts_default(SimOpts* o) {
  memset(o, 0, sizeof *o);
  o->fault_mask = SF_DELAY_ONLY;
  o->explore_steps = 3000000;
  o->tail_steps = 3000000;
  o->force_policy = -1;
}

extern "C" int sim_active(void) {
  return g.active;
}

extern "C" void sim_begin(const SimOpts* o) {
  memset(&g, 0, sizeof g);
  g.opts = *o;
  g.timers = new std::vector<Timer>();
  g.mutexes = new std::vector<MutexEnt>();
  g.sems = new std::vector<SemEnt>();
  g.onces = new std::vector<OnceEnt>();
  g.recursive_mutexes = new std::vector<const void*>();
  g.trace = new std::vector<Dec>();
  g.plan = new std::vector<uint32_t>();
  g.trace->reserve(1 << 16);
  g.timer_min = UINT64_MAX;
  g.fp = 0xcbf29ce484222325ull;
  g.sched_sig = 0xcbf29ce484222325ull;
  g.shape = 0xcbf29ce484222325ull;
  g.r_plan.s = mix64(o->seed, 1);
  g.r_sched.s = mix64(o->seed, 2);
  g.r_fault.s = mix64(o->seed, 3);
  g.r_kernel.s = mix64(o->seed, 4);
  g.r_conf.s = mix64(o->seed, 5);
  {
    static const uint32_t qs[] = {0, 100, 350, 800, 350};
    g.conflict_q = (o->fault_mask & SF_BIT(SF_STALL)) ? qs[g.r_conf.below(5)] : 0;
    if (getenv("SIMRT_NO_CONFLICT"))
      g.conflict_q = 0;
  }
  g.fault_rate_scale = 1000;
  if (o->replay_path) {
    if (!load_replay(o->replay_path)) {
      fprintf(stderr, "simrt: cannot read replay file %s\n", o->replay_path);
      _exit(2);
    }
    g.replay = true;
  }
  if (o->trace_path)
    g.tracef = fopen(o->trace_path, "w");
  if (!g_exit_key_made) {
    pthread_key_create(&g_exit_key, exit_key_dtor);
    g_exit_key_made = true;
  }
  // swarm configuration, all from the sched/fault streams
  Rng cfg{mix64(o->seed, 5)};
  if (o->force_policy >= 0) {
    g.policy = o->force_policy % POL_NPOL;
  } else {
    uint32_t r = cfg.below(100);
    g.policy = r < 50 ? POL_RANDOM : (r < 85 ? POL_PCT : POL_RR);
  }
  static const uint32_t pnum[] = {10, 20, 50, 100, 250, 500};
  g.p_switch_num = pnum[cfg.below(6)];
  static const uint32_t qnum[] = {2, 7, 20, 65, 200, 650};
  g.pct_q_num = qnum[cfg.below(6)];
  static const uint32_t rrq[] = {1, 2, 3, 5, 10, 50};
  g.rr_q = rrq[cfg.below(6)];
  // fault subset: each allowed kind enabled with probability 1/2; 1 run in 5 has no faults at all
  g.faults_on = 0;
  if (cfg.below(5) != 0) {
    for (int k = 0; k < SF_NKINDS; ++k)
      if ((o->fault_mask & SF_BIT(k)) && cfg.below(2))
        g.faults_on |= SF_BIT(k);
  }
  g.faults_enabled = g.faults_on != 0;
  sim_tso_active = g.replay ? 1 : ((g.faults_on & SF_BIT(SF_STORE_BUFFER)) ? 1 : 0);
  static const uint32_t gaps[] = {1500, 5000, 15000, 50000};
  g.fault_gap = gaps[cfg.below(4)];
  g.wake_policy = (int)cfg.below(3);
  SimThread* t = &g.th[0];
  memset(t, 0, sizeof *t);
  t->id = 0;
  t->st = T_RUNNABLE;
  t->prio = (int64_t)(g.r_sched.next() >> 16);
  t->pcq_rng = mix64(o->seed, 1000);
  t->pcq = 1;
  if (o->pcguard_quantum_max > 0) {
    static const int qs[] = {1, 3, 10, 40, 150};
    g_pcq_max = qs[cfg.below(5)];
    if (g_pcq_max > o->pcguard_quantum_max)
      g_pcq_max = o->pcguard_quantum_max;
  } else {
    g_pcq_max = 0;
  }
  g.nth = 1;
  g.cur = 0;
  g.max_threads_live = 1;
  tl_self = t;
  g.active = true;
  schedule_next_fault();
  if (g.tracef)
    fprintf(g.tracef, "seed %llu policy %d p %u q %u rr %u faults %x gap %u wake %d\n",
            (unsigned long long)o->seed, g.policy, g.p_switch_num, g.pct_q_num, g.rr_q, g.faults_on,
            g.fault_gap, g.wake_policy);
}

extern "C" void sim_end(void) {
  SimThread* t = self();
  sb_flush_all();
  // wait for every simulated thread to exit (detached ones included)
  g.finishing = true;
  for (int i = 1; i < g.nth; ++i) {
    SimThread* o = &g.th[i];
    while (o->st != T_EXITED) {
      sim_point(SP_THREAD_JOIN, o);
      if (o->st != T_EXITED)
        block_on(SW_JOIN, o, 0);
    }
    if (o->has_real && !o->reaped) {
      void* r;
      real_pthread_join()(o->real, &r);
      o->reaped = true;
      if (g.reap == o)
        g.reap = nullptr;
    }
  }
  (void)t;
  g.active = false;
  if (g.tracef) {
    fprintf(g.tracef, "end fp %016llx steps %llu\n", (unsigned long long)g.fp, (unsigned long long)g.step);
    fclose(g.tracef);
    g.tracef = nullptr;
  }
}

extern "C" uint32_t sim_plan(uint32_t n) {
  uint32_t v;
  if (g.replay) {
    v = g.rplanpos < g.rplan->size() ? (*g.rplan)[g.rplanpos] : 0;
    g.rplanpos++;
    if (n && v >= n)
      v = n - 1;
    if (!n)
      v = 0;
  } else {
    v = g.r_plan.below(n);
  }
  g.plan->push_back(v);
  return v;
}
extern "C" int sim_plan_chance(uint32_t num, uint32_t den) {
  uint32_t v;
  if (g.replay) {
    v = g.rplanpos < g.rplan->size() ? (*g.rplan)[g.rplanpos] : 0;
    g.rplanpos++;
    v = v ? 1 : 0;
  } else {
    v = g.r_plan.below(den) < num ? 1 : 0;
  }
  g.plan->push_back(v);
  return (int)v;
}

extern "C" void sim_point_user(void) {
  sim_point(SP_USER, nullptr);
}
extern "C" void sim_work(int n) {
  for (int i = 0; i < n; ++i)
    sim_point(SP_USER, nullptr);
}
extern "C" uint64_t sim_step(void) {
  return g.step;
}
extern "C" uint64_t sim_now_ns(void) {
  return g.now;
}
extern "C" int sim_tid(void) {
  return tl_self ? tl_self->id : -1;
}
extern "C" uint64_t sim_last_load_step(void) {
  return tl_self ? tl_self->last_load_step : 0;
}

extern "C" void sim_event_wait(const void* key) {
  if (!simulated())
    return;
  // No simulation point before blocking: the caller's "check the condition, then wait" must be
  // atomic with respect to the waker (there is no mutex to close that window with).
  block_on(SW_EVENT, key, 0);
  rd_acquire(self()->id, key);
}
extern "C" void sim_event_wake_all(const void* key) {
  if (!simulated())
    return;
  rd_release(self()->id, key);
  for (int i = 0; i < g.nth; ++i)
    if (g.th[i].st == T_BLOCKED && g.th[i].wk == SW_EVENT && g.th[i].waddr == key)
      make_runnable(&g.th[i], WR_WOKEN);
  sim_point(SP_EVENT_WAKE, key);
}

extern "C" int sim_count_blocked(int wk) {
  int n = 0;
  for (int i = 0; i < g.nth; ++i)
    if (&g.th[i] != tl_self && g.th[i].st == T_BLOCKED && g.th[i].wk == wk)
      n++;
  return n;
}
extern "C" int sim_count_blocked_timed_futex(void) {
  int n = 0;
  for (int i = 0; i < g.nth; ++i)
    if (&g.th[i] != tl_self && g.th[i].st == T_BLOCKED && g.th[i].wk == SW_FUTEX && g.th[i].deadline)
      n++;
  return n;
}
extern "C" int sim_count_threads(void) {
  int n = 0;
  for (int i = 0; i < g.nth; ++i)
    if (g.th[i].st == T_RUNNABLE || g.th[i].st == T_BLOCKED)
      n++;
  return n;
}
extern "C" int sim_count_runnable_others(void) {
  int n = 0;
  for (int i = 0; i < g.nth; ++i)
    if (&g.th[i] != tl_self && g.th[i].st == T_RUNNABLE)
      n++;
  return n;
}
extern "C" uint64_t sim_stat_futex_timeouts(void) {
  return g.futex_timeouts;
}
extern "C" uint64_t sim_stat_idle_futex_timeouts(void) {
  return g.idle_futex_timeouts;
}
// "the calling thread's k-th atomic operation from now": lets an oracle apply the check-then-act rule
// to something the library does a fixed number of atomic operations after a user function returns
extern "C" void sim_mark_after_atomics(int k) {
  SimThread* t = tl_self;
  if (!t)
    return;
  t->mark_left = k;
  t->mark_step = 0;
}
extern "C" uint64_t sim_marked_step(int tid) {
  return (tid >= 0 && tid < g.nth) ? g.th[tid].mark_step : 0;
}
extern "C" uint64_t sim_stat_idle_jumps(void) {
  return g.idle_jumps;
}
extern "C" void sim_faults_enable(int on) {
  if (g.in_tail)
    return;
  g.faults_enabled = on && g.faults_on != 0;
  if (!on)
    for (int i = 0; i < g.nth; ++i)
      g.th[i].stall_until = 0;
  if (g.faults_enabled && g.next_fault_step == UINT64_MAX)
    schedule_next_fault();
}
extern "C" void sim_set_fault_rate_scale(int permille) {
  g.fault_rate_scale = permille;
}

extern "C" void sim_event(uint32_t kind, int64_t a, int64_t b) {
  g.events++;
  fp_mix(((uint64_t)kind << 56) ^ (uint64_t)a * 0x9e3779b97f4a7c15ull ^ (uint64_t)b);
  fp_mix((uint64_t)(tl_self ? tl_self->id : -1));
  if (g.tracef)
    fprintf(g.tracef, "%llu ev t%d k%u %lld %lld\n", (unsigned long long)g.step, tl_self ? tl_self->id : -1, kind,
            (long long)a, (long long)b);
}
extern "C" void sim_probe(int id) {
  if (id >= 0 && id < 64)
    g.probes[id]++;
}
extern "C" void sim_note(const char* key, int64_t v) {
  for (const char* p = key; *p; ++p)
    g.shape = (g.shape ^ (uint64_t)(unsigned char)*p) * 0x100000001b3ull;
  g.shape = (g.shape ^ (uint64_t)v) * 0x100000001b3ull;
  g.shape ^= g.shape >> 31;
  if (g.notes_len + 48 < sizeof g.notes)
    g.notes_len += (size_t)snprintf(g.notes + g.notes_len, sizeof g.notes - g.notes_len, "%s%s=%lld",
                                    g.notes_len ? " " : "", key, (long long)v);
}
extern "C" void sim_set_hang_describer(sim_hang_cb cb) {
  g.hang_cb = cb;
}
extern "C" void sim_watch(const void* addr, sim_watch_cb cb) {
  g.watch_addr = addr;
  g.watch_cb = cb;
}
// post-operation watch on one 32-bit atomic: the shim reports (kind, value before, value after)
extern "C" {
const volatile void* sim_watched32;
}
static sim_watch32_cb g_watch32_cb;
extern "C" void sim_watch32(const void* addr, sim_watch32_cb cb) {
  sim_watched32 = addr;
  g_watch32_cb = cb;
}
extern "C" void sim_watch32_post(int kind, uint32_t before, uint32_t after) {
  if (g_watch32_cb && tl_self)
    g_watch32_cb(kind, before, after, tl_self->id);
}

// ------------------------------------------------------------------------------------------
// process start: single malloc arena (heap layout then depends only on the token order)
// ------------------------------------------------------------------------------------------
__attribute__((constructor)) static void simrt_ctor() {
  mallopt(M_ARENA_MAX, 1);
  const char* sp = getenv("SIMRT_SPIN");
  if (sp)
    g_spin = atoi(sp);
}

// ------------------------------------------------------------------------------------------
// data-race detector glue (race.cpp): which thread is running, and how a race is reported
// ------------------------------------------------------------------------------------------
static void race_report(const char* what, const char* a, int ta, const char* b, int tb, const void* addr) {
  const char* x = a;
  const char* y = b;
  if (strcmp(x, y) > 0) {
    x = b;
    y = a;
  }
  char cls[256];
  snprintf(cls, sizeof cls, "race:%s|%s", x, y);
  sim_soft_fail(cls, "%s data race on %p: %s (thread %d) then %s (thread %d) with no happens-before between them", what,
                addr, a, ta, b, tb);
}
extern "C" void sim_race_enable(int on) {
  rd_enable(on, race_report);
}
static inline bool race_live() {
  return rd_on() && g.active && tl_self;
}
extern "C" void sim_race_atomic(const void* addr, int op, int mo) {
  if (race_live())
    rd_atomic(tl_self->id, addr, op, mo);
}
extern "C" void sim_race_fence(int mo) {
  if (race_live())
    rd_fence(tl_self->id, mo);
}
extern "C" void sim_race_access(const void* addr, size_t size, int is_write, const char* label) {
  if (race_live())
    rd_access_labelled(tl_self->id, label, addr, size, is_write);
}
extern "C" void sim_race_release(const void* obj) {
  if (race_live())
    rd_release(tl_self->id, obj);
}
extern "C" void sim_race_acquire(const void* obj) {
  if (race_live())
    rd_acquire(tl_self->id, obj);
}
extern "C" void sim_race_ignore(int reads_delta, int writes_delta) {
  if (race_live())
    rd_ignore(tl_self->id, reads_delta, writes_delta);
}
extern "C" void sim_race_new_memory(const void* addr, size_t size) {
  if (race_live())
    rd_clear(addr, size);
}
extern "C" void sim_race_stats(uint64_t* plain, uint64_t* atomic, uint64_t* sync, uint64_t* declared) {
  rd_stats(plain, atomic, sync, declared);
}

// function-local statics: the guard's release happens inside libstdc++ (not instrumented), so the
// edge "initialisation completed -> later users" is declared here
extern "C" int __cxa_guard_acquire(long long* g_) {
  typedef int (*fn_t)(long long*);
  static fn_t real; // (no initialiser: a guarded static here would recurse into this function)
  if (!real)
    real = (fn_t)dlsym(RTLD_NEXT, "__cxa_guard_acquire");
  int r = real(g_);
  if (race_live())
    rd_acquire(tl_self->id, g_);
  return r;
}
extern "C" void __cxa_guard_release(long long* g_) {
  typedef void (*fn_t)(long long*);
  static fn_t real;
  if (!real)
    real = (fn_t)dlsym(RTLD_NEXT, "__cxa_guard_release");
  if (race_live())
    rd_release(tl_self->id, g_);
  real(g_);
}
