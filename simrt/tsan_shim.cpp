// Our own definitions of the entry points emitted by clang's ThreadSanitizer pass when it is
// run for its atomics instrumentation only.  Each atomic operation becomes a simulation point
// followed by the real operation (always seq_cst: one thread runs at a time, so every
// execution is sequentially consistent anyway).  Compiled WITHOUT instrumentation.
#include "simrt.h"

#include <stdint.h>

typedef uint8_t a8;
typedef uint16_t a16;
typedef uint32_t a32;
typedef uint64_t a64;

// post-operation hook for the one watched 32-bit word (see sim_watch32)
template <typename T>
static inline void post(const volatile T*, int, T, T) {}
template <>
inline void post<a32>(const volatile a32* a, int kind, a32 before, a32 after) {
  if (__builtin_expect((const volatile void*)a == sim_watched32, 0))
    sim_watch32_post(kind, before, after);
}

#define RMW(N, name, builtin)                                                     \
  extern "C" a##N __tsan_atomic##N##_##name(volatile a##N* a, a##N v, int mo) {   \
    sim_point(SP_RMW, (const void*)a);                                            \
    if (sim_tso_active)                                                           \
      sim_tso_flush_self(); /* locked instruction */                              \
    a##N before = builtin(a, v, __ATOMIC_SEQ_CST);                                \
    post<a##N>(a, SP_RMW, before, __atomic_load_n(a, __ATOMIC_SEQ_CST));          \
    sim_race_atomic((const void*)a, 2, mo);                                       \
    return before;                                                                \
  }

#define SHIM(N)                                                                                       \
  extern "C" a##N __tsan_atomic##N##_load(const volatile a##N* a, int mo) {                           \
    sim_point(SP_LOAD, (const void*)a);                                                               \
    a##N v;                                                                                           \
    uint64_t fwd;                                                                                     \
    if (sim_tso_active && sim_tso_forward((const volatile void*)a, N / 8, &fwd))                      \
      v = (a##N)fwd; /* the caller's own store, still in its store buffer */                          \
    else                                                                                              \
      v = __atomic_load_n(a, __ATOMIC_SEQ_CST);                                                       \
    post<a##N>(a, SP_LOAD, v, v);                                                                     \
    sim_race_atomic((const void*)a, 0, mo);                                                           \
    return v;                                                                                         \
  }                                                                                                   \
  extern "C" void __tsan_atomic##N##_store(volatile a##N* a, a##N v, int mo) {                        \
    sim_point(SP_STORE, (const void*)a);                                                              \
    if (sim_tso_active && sim_tso_store((volatile void*)a, N / 8, (uint64_t)v, mo)) {                 \
      sim_race_atomic((const void*)a, 1, mo);                                                         \
      return; /* sits in the store buffer; reaches memory later */                                    \
    }                                                                                                 \
    a##N before = __atomic_load_n(a, __ATOMIC_SEQ_CST);                                               \
    __atomic_store_n(a, v, __ATOMIC_SEQ_CST);                                                         \
    post<a##N>(a, SP_STORE, before, v);                                                               \
    sim_race_atomic((const void*)a, 1, mo);                                                           \
  }                                                                                                   \
  RMW(N, exchange, __atomic_exchange_n)                                                               \
  RMW(N, fetch_add, __atomic_fetch_add)                                                               \
  RMW(N, fetch_sub, __atomic_fetch_sub)                                                               \
  RMW(N, fetch_and, __atomic_fetch_and)                                                               \
  RMW(N, fetch_or, __atomic_fetch_or)                                                                 \
  RMW(N, fetch_xor, __atomic_fetch_xor)                                                               \
  RMW(N, fetch_nand, __atomic_fetch_nand)                                                             \
  extern "C" int __tsan_atomic##N##_compare_exchange_strong(volatile a##N* a, a##N* c, a##N v, int mo, \
                                                            int fmo) {                                \
    sim_point(SP_CAS, (const void*)a);                                                                \
    if (sim_tso_active)                                                                               \
      sim_tso_flush_self();                                                                           \
    a##N expected = *c;                                                                               \
    int ok = __atomic_compare_exchange_n(a, c, v, false, __ATOMIC_SEQ_CST, __ATOMIC_SEQ_CST);         \
    /* before = observed value; after = new value; a successful CAS is reported as SP_CAS, a failed */ \
    /* one as SP_LOAD (it only observed) */                                                           \
    post<a##N>(a, ok ? SP_CAS : SP_LOAD, ok ? expected : *c, ok ? v : *c);                            \
    sim_race_atomic((const void*)a, ok ? 2 : 0, ok ? mo : fmo);                                       \
    return ok;                                                                                        \
  }                                                                                                   \
  extern "C" int __tsan_atomic##N##_compare_exchange_weak(volatile a##N* a, a##N* c, a##N v, int mo,  \
                                                          int fmo) {                                  \
    sim_point(SP_CAS, (const void*)a);                                                                \
    if (sim_tso_active)                                                                               \
      sim_tso_flush_self();                                                                           \
    a##N expected = *c;                                                                               \
    int ok = __atomic_compare_exchange_n(a, c, v, false, __ATOMIC_SEQ_CST, __ATOMIC_SEQ_CST);         \
    post<a##N>(a, ok ? SP_CAS : SP_LOAD, ok ? expected : *c, ok ? v : *c);                            \
    sim_race_atomic((const void*)a, ok ? 2 : 0, ok ? mo : fmo);                                       \
    return ok;                                                                                        \
  }                                                                                                   \
  extern "C" a##N __tsan_atomic##N##_compare_exchange_val(volatile a##N* a, a##N c, a##N v, int mo,   \
                                                          int fmo) {                                  \
    sim_point(SP_CAS, (const void*)a);                                                                \
    if (sim_tso_active)                                                                               \
      sim_tso_flush_self();                                                                           \
    a##N expected = c;                                                                                \
    int ok = __atomic_compare_exchange_n(a, &c, v, false, __ATOMIC_SEQ_CST, __ATOMIC_SEQ_CST);        \
    post<a##N>(a, ok ? SP_CAS : SP_LOAD, ok ? expected : c, ok ? v : c);                              \
    sim_race_atomic((const void*)a, ok ? 2 : 0, ok ? mo : fmo);                                       \
    return c;                                                                                         \
  }

SHIM(8)
SHIM(16)
SHIM(32)
SHIM(64)

extern "C" void __tsan_atomic_thread_fence(int mo) {
  sim_point(SP_FENCE, nullptr);
  if (sim_tso_active && mo == 5)
    sim_tso_flush_self(); // mfence; weaker fences are compiler-only on x86
  __atomic_thread_fence(__ATOMIC_SEQ_CST);
  sim_race_fence(mo);
}
extern "C" void __tsan_atomic_signal_fence(int) {}
extern "C" void __tsan_init(void) {}

// dispenso's tsan_annotations.cpp forwards to these (weak there); no-ops under SIM.
// (they have no effect on scheduling; the race detector honours them as ThreadSanitizer would)
extern "C" void AnnotateIgnoreReadsBegin(const char*, int) {
  sim_race_ignore(1, 0);
}
extern "C" void AnnotateIgnoreReadsEnd(const char*, int) {
  sim_race_ignore(-1, 0);
}
extern "C" void AnnotateIgnoreWritesBegin(const char*, int) {
  sim_race_ignore(0, 1);
}
extern "C" void AnnotateIgnoreWritesEnd(const char*, int) {
  sim_race_ignore(0, -1);
}
extern "C" void AnnotateNewMemory(const char*, int, const volatile void* a, long n) {
  sim_race_new_memory((const void*)a, (size_t)n);
}
extern "C" void AnnotateHappensBefore(const char*, int, const volatile void* a) {
  sim_race_release((const void*)a);
}
extern "C" void AnnotateHappensAfter(const char*, int, const volatile void* a) {
  sim_race_acquire((const void*)a);
}

// ---------------------------------------------------------------------------------------------
// "fine" variants: the tsan pass also instruments plain memory accesses; each access made by code
// under test (not by harness or C++ standard library code: classified by the caller's symbol) is a
// simulation point too, so windows that open or close at a non-atomic access become explorable.
// ---------------------------------------------------------------------------------------------
#define PLAIN_R(name, n) \
  extern "C" void name(void* a) { sim_plain_point_n(__builtin_return_address(0), a, 0, n); }
#define PLAIN_W(name, n) \
  extern "C" void name(void* a) { sim_plain_point_n(__builtin_return_address(0), a, 1, n); }
PLAIN_R(__tsan_read1, 1)
PLAIN_R(__tsan_read2, 2)
PLAIN_R(__tsan_read4, 4)
PLAIN_R(__tsan_read8, 8)
PLAIN_R(__tsan_read16, 16)
PLAIN_W(__tsan_write1, 1)
PLAIN_W(__tsan_write2, 2)
PLAIN_W(__tsan_write4, 4)
PLAIN_W(__tsan_write8, 8)
PLAIN_W(__tsan_write16, 16)
PLAIN_R(__tsan_unaligned_read2, 2)
PLAIN_R(__tsan_unaligned_read4, 4)
PLAIN_R(__tsan_unaligned_read8, 8)
PLAIN_R(__tsan_unaligned_read16, 16)
PLAIN_W(__tsan_unaligned_write2, 2)
PLAIN_W(__tsan_unaligned_write4, 4)
PLAIN_W(__tsan_unaligned_write8, 8)
PLAIN_W(__tsan_unaligned_write16, 16)
PLAIN_W(__tsan_read_write1, 1)
PLAIN_W(__tsan_read_write2, 2)
PLAIN_W(__tsan_read_write4, 4)
PLAIN_W(__tsan_read_write8, 8)
PLAIN_W(__tsan_read_write16, 16)
PLAIN_R(__tsan_vptr_read, 8)
extern "C" void __tsan_vptr_update(void** a, void*) {
  sim_plain_point_n(__builtin_return_address(0), a, 1, 8);
}
extern "C" void __tsan_read_range(void* a, unsigned long n) {
  sim_plain_point_n(__builtin_return_address(0), a, 0, n > 256 ? 256 : (int)n);
}
extern "C" void __tsan_write_range(void* a, unsigned long n) {
  sim_plain_point_n(__builtin_return_address(0), a, 1, n > 256 ? 256 : (int)n);
}
// memory intrinsics (fine variants instrument them so that a memset/memcpy over a location with a pending
// buffered store is seen)
#include <string.h>
extern "C" void* __tsan_memset(void* d, int c, unsigned long n) {
  sim_plain_point_n(__builtin_return_address(0), d, 1, n > 256 ? 256 : (int)n);
  if (n > 256)
    sim_tso_free_range(d, n);
  return memset(d, c, n);
}
extern "C" void* __tsan_memcpy(void* d, const void* s_, unsigned long n) {
  sim_plain_point_n(__builtin_return_address(0), s_, 0, n > 256 ? 256 : (int)n);
  sim_plain_point_n(__builtin_return_address(0), d, 1, n > 256 ? 256 : (int)n);
  if (n > 256)
    sim_tso_free_range(d, n);
  return memcpy(d, s_, n);
}
extern "C" void* __tsan_memmove(void* d, const void* s_, unsigned long n) {
  sim_plain_point_n(__builtin_return_address(0), s_, 0, n > 256 ? 256 : (int)n);
  sim_plain_point_n(__builtin_return_address(0), d, 1, n > 256 ? 256 : (int)n);
  if (n > 256)
    sim_tso_free_range(d, n);
  return memmove(d, s_, n);
}
extern "C" void __tsan_func_entry(void*) {}
extern "C" void __tsan_func_exit() {}
