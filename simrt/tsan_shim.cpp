// Our own definitions of the entry points emitted by clang's ThreadSanitizer pass when it is
// run for its atomics instrumentation only.  Each atomic operation becomes a simulation point
// followed by the real operation (always seq_cst: one thread runs at a time, so every
// execution is sequentially consistent anyway).  Compiled WITHOUT instrumentation.
#include "simrt.h"

#include <stdint.h>

typedef uint8_t a8;
typedef uint16_t a16;
typedef uint32_t a32;
typedef uint64_t a64;

#define SHIM(N)                                                                                       \
  extern "C" a##N __tsan_atomic##N##_load(const volatile a##N* a, int) {                              \
    sim_point(SP_LOAD, (const void*)a);                                                               \
    return __atomic_load_n(a, __ATOMIC_SEQ_CST);                                                      \
  }                                                                                                   \
  extern "C" void __tsan_atomic##N##_store(volatile a##N* a, a##N v, int) {                           \
    sim_point(SP_STORE, (const void*)a);                                                              \
    __atomic_store_n(a, v, __ATOMIC_SEQ_CST);                                                         \
  }                                                                                                   \
  extern "C" a##N __tsan_atomic##N##_exchange(volatile a##N* a, a##N v, int) {                        \
    sim_point(SP_RMW, (const void*)a);                                                                \
    return __atomic_exchange_n(a, v, __ATOMIC_SEQ_CST);                                               \
  }                                                                                                   \
  extern "C" a##N __tsan_atomic##N##_fetch_add(volatile a##N* a, a##N v, int) {                       \
    sim_point(SP_RMW, (const void*)a);                                                                \
    return __atomic_fetch_add(a, v, __ATOMIC_SEQ_CST);                                                \
  }                                                                                                   \
  extern "C" a##N __tsan_atomic##N##_fetch_sub(volatile a##N* a, a##N v, int) {                       \
    sim_point(SP_RMW, (const void*)a);                                                                \
    return __atomic_fetch_sub(a, v, __ATOMIC_SEQ_CST);                                                \
  }                                                                                                   \
  extern "C" a##N __tsan_atomic##N##_fetch_and(volatile a##N* a, a##N v, int) {                       \
    sim_point(SP_RMW, (const void*)a);                                                                \
    return __atomic_fetch_and(a, v, __ATOMIC_SEQ_CST);                                                \
  }                                                                                                   \
  extern "C" a##N __tsan_atomic##N##_fetch_or(volatile a##N* a, a##N v, int) {                        \
    sim_point(SP_RMW, (const void*)a);                                                                \
    return __atomic_fetch_or(a, v, __ATOMIC_SEQ_CST);                                                 \
  }                                                                                                   \
  extern "C" a##N __tsan_atomic##N##_fetch_xor(volatile a##N* a, a##N v, int) {                       \
    sim_point(SP_RMW, (const void*)a);                                                                \
    return __atomic_fetch_xor(a, v, __ATOMIC_SEQ_CST);                                                \
  }                                                                                                   \
  extern "C" a##N __tsan_atomic##N##_fetch_nand(volatile a##N* a, a##N v, int) {                      \
    sim_point(SP_RMW, (const void*)a);                                                                \
    return __atomic_fetch_nand(a, v, __ATOMIC_SEQ_CST);                                               \
  }                                                                                                   \
  extern "C" int __tsan_atomic##N##_compare_exchange_strong(volatile a##N* a, a##N* c, a##N v, int,   \
                                                            int) {                                    \
    sim_point(SP_CAS, (const void*)a);                                                                \
    return __atomic_compare_exchange_n(a, c, v, false, __ATOMIC_SEQ_CST, __ATOMIC_SEQ_CST);           \
  }                                                                                                   \
  extern "C" int __tsan_atomic##N##_compare_exchange_weak(volatile a##N* a, a##N* c, a##N v, int,     \
                                                          int) {                                      \
    sim_point(SP_CAS, (const void*)a);                                                                \
    return __atomic_compare_exchange_n(a, c, v, false, __ATOMIC_SEQ_CST, __ATOMIC_SEQ_CST);           \
  }                                                                                                   \
  extern "C" a##N __tsan_atomic##N##_compare_exchange_val(volatile a##N* a, a##N c, a##N v, int,      \
                                                          int) {                                      \
    sim_point(SP_CAS, (const void*)a);                                                                \
    __atomic_compare_exchange_n(a, &c, v, false, __ATOMIC_SEQ_CST, __ATOMIC_SEQ_CST);                 \
    return c;                                                                                         \
  }

SHIM(8)
SHIM(16)
SHIM(32)
SHIM(64)

extern "C" void __tsan_atomic_thread_fence(int) {
  sim_point(SP_FENCE, nullptr);
  __atomic_thread_fence(__ATOMIC_SEQ_CST);
}
extern "C" void __tsan_atomic_signal_fence(int) {}
extern "C" void __tsan_init(void) {}

// dispenso's tsan_annotations.cpp forwards to these (weak there); no-ops under SIM.
extern "C" void AnnotateIgnoreReadsBegin(const char*, int) {}
extern "C" void AnnotateIgnoreReadsEnd(const char*, int) {}
extern "C" void AnnotateIgnoreWritesBegin(const char*, int) {}
extern "C" void AnnotateIgnoreWritesEnd(const char*, int) {}
extern "C" void AnnotateNewMemory(const char*, int, const volatile void*, long) {}
extern "C" void AnnotateHappensBefore(const char*, int, const volatile void*) {}
extern "C" void AnnotateHappensAfter(const char*, int, const volatile void*) {}
