// simrt — deterministic simulation runtime for dispenso (see /verif/DESIGN.md §2).
//
// Real OS threads, but only the holder of the single *token* ever runs; every
// intercepted synchronisation point (atomic op, futex, mutex, condvar, semaphore,
// thread create/join/exit, yield, sleep, clock read) is a place where a seeded
// scheduler may hand the token to another thread.  The kernel-facing primitives
// are modelled here (nothing ever blocks in the real kernel except parked
// threads waiting for the token), and time is a variable this file owns.
#pragma once
#include <stddef.h>
#include <stdint.h>

#ifdef __cplusplus
extern "C" {
#endif

// ---- point kinds (also used in the fingerprint) ----
enum SimPointKind {
  SP_LOAD = 1,
  SP_STORE = 2,
  SP_RMW = 3,
  SP_CAS = 4,
  SP_FENCE = 5,
  SP_FUTEX_WAIT = 6,
  SP_FUTEX_WAKE = 7,
  SP_MUTEX_LOCK = 8,
  SP_MUTEX_UNLOCK = 9,
  SP_COND_WAIT = 10,
  SP_COND_SIGNAL = 11,
  SP_SEM_WAIT = 12,
  SP_SEM_POST = 13,
  SP_THREAD_CREATE = 14,
  SP_THREAD_JOIN = 15,
  SP_THREAD_EXIT = 16,
  SP_YIELD = 17,
  SP_SLEEP = 18,
  SP_CLOCK = 19,
  SP_USER = 20,
  SP_ONCE = 21,
  SP_EVENT_WAIT = 22,
  SP_EVENT_WAKE = 23,
  SP_PCGUARD = 24,
  SP_PLAIN_R = 25, // plain (non-atomic) read by code under test ("fine" variants)
  SP_PLAIN_W = 26, // plain write
};
// called by the plain-access shims: a point iff `pc` lies in code under test
void sim_plain_point(void* pc, const void* addr, int is_write);
void sim_plain_point_n(void* pc, const void* addr, int is_write, int size);

void sim_mark_after_atomics(int k);     // remember the step of the caller's k-th atomic operation from now
uint64_t sim_marked_step(int tid);      // that step for thread tid (0 while it has not happened)

// ---- TSO store buffers (fault kind SF_STORE_BUFFER; see simrt.cpp) ----
extern int sim_tso_active;                                                  // this run may buffer stores
int sim_tso_store(volatile void* addr, int size, uint64_t val, int mo);     // 1: buffered, the caller must not store
int sim_tso_forward(const volatile void* addr, int size, uint64_t* val);    // 1: *val is the caller's own pending store
void sim_tso_flush_self(void);                                              // locked instruction / mfence / kernel entry
void sim_tso_free_range(const void* addr, size_t size);                     // memory returned to the allocator

// ---- order-aware data-race detector (race.cpp; property C10) ----
void sim_race_enable(int on);
void sim_race_atomic(const void* addr, int op /*0 load 1 store 2 rmw*/, int memory_order);
void sim_race_fence(int memory_order);
// the harness declares an access to one of its payload objects (checked like a plain access)
void sim_race_access(const void* addr, size_t size, int is_write, const char* label);
// harness-level synchronisation that really orders things (SimLatch)
void sim_race_release(const void* obj);
void sim_race_acquire(const void* obj);
void sim_race_ignore(int reads_delta, int writes_delta);
void sim_race_new_memory(const void* addr, size_t size);
void sim_race_stats(uint64_t* plain, uint64_t* atomic, uint64_t* sync, uint64_t* declared);

// ---- fault kinds (bit positions in masks, indices in counters) ----
enum SimFaultKind {
  SF_STALL = 0,
  SF_WAKE_CHOICE = 1,
  SF_SPURIOUS_FUTEX = 2,
  SF_SPURIOUS_COND = 3,
  SF_LATE_TIMER = 4,
  SF_SLOW_START = 5,
  SF_YIELD_NOOP = 6,
  SF_EINTR_FUTEX = 7,
  SF_STORE_BUFFER = 8, // x86-TSO store buffering of non-seq_cst atomic stores (opt-in per workload; fine variants only)
  SF_NKINDS = 9,
};
#define SF_BIT(k) (1u << (k))
#define SF_ALL 0xffu
#define SF_TSO SF_BIT(SF_STORE_BUFFER) // opt-in: only for workloads whose oracles do not assume sequential consistency
// faults that can only delay things (safe for every workload)
#define SF_DELAY_ONLY (SF_BIT(SF_STALL) | SF_BIT(SF_WAKE_CHOICE) | SF_BIT(SF_LATE_TIMER) | SF_BIT(SF_SLOW_START) | SF_BIT(SF_YIELD_NOOP))

// ---- wait kinds (what a blocked thread is blocked in) ----
enum SimWaitKind {
  SW_NONE = 0,
  SW_FUTEX = 1,
  SW_MUTEX = 2,
  SW_COND = 3,
  SW_SEM = 4,
  SW_JOIN = 5,
  SW_SLEEP = 6,
  SW_ONCE = 7,
  SW_EVENT = 8,
  SW_START = 9,
  SW_NKINDS = 10,
};

typedef struct SimOpts {
  uint64_t seed;
  uint32_t fault_mask;    // which fault kinds the workload allows (swarm picks a subset)
  uint64_t explore_steps; // after this many points: fair tail (round robin, faults off)
  uint64_t tail_steps;    // after explore+tail points without finishing: "hang"
  int force_policy;       // -1 = swarm; else policy id
  const char* replay_path; // if set: plan + decision trace come from this file
  const char* record_path; // if set: on violation write replay file here
  const char* trace_path;  // if set: write a text event log (determinism diffing)
  const char* prop;        // property id, copied into replay file
  const char* workload;    // free text copied into replay file
  int pcguard_quantum_max; // SIM+ASAN: max basic blocks between preemption points (0 = off)
} SimOpts;

void sim_opts_default(SimOpts* o);

// bracket one simulated run (called on the main thread of a forked child)
void sim_begin(const SimOpts* o);
void sim_end(void);
int sim_active(void);

// plan stream: bounded ints, recorded into the replay file; 0 is always the "simplest" choice
uint32_t sim_plan(uint32_t n);
// weighted: returns 1 with probability num/den (recorded as 0/1)
int sim_plan_chance(uint32_t num, uint32_t den);

// points and time
void sim_point_user(void);
void sim_work(int npoints);
uint64_t sim_step(void);
uint64_t sim_now_ns(void);
int sim_tid(void);
uint64_t sim_last_load_step(void);
void sim_sleep_ns(uint64_t ns);
double dispenso_verif_sim_now(void);
// CLOCK_REALTIME (system_clock) = simulated monotonic time + this constant
uint64_t sim_realtime_offset_ns(void);

// harness-level blocking without any participation in dispenso (latches for oracles)
void sim_event_wait(const void* key);
void sim_event_wake_all(const void* key);

// observation
int sim_count_blocked(int waitkind); // threads other than the caller blocked in this kind
int sim_count_blocked_timed_futex(void);
int sim_count_threads(void);         // live (not exited) simulated threads
int sim_count_runnable_others(void);
uint64_t sim_stat_futex_timeouts(void); // FUTEX_WAIT timeouts that expired so far
uint64_t sim_stat_idle_jumps(void);
// FUTEX_WAIT timeouts that fired because nothing else could run (idle clock jump): "the only way
// forward was a wait backstop" (DESIGN.md §6)
uint64_t sim_stat_idle_futex_timeouts(void);
void sim_faults_enable(int on);        // workload phases may switch injection off/on
void sim_set_fault_rate_scale(int permille);

// history / fingerprint
void sim_event(uint32_t kind, int64_t a, int64_t b);
void sim_probe(int id); // reach probe counters 0..63
void sim_note(const char* key, int64_t v); // shape/plan descriptors mixed into plan-shape hash

// violation: records class key + message, writes replay file, prints result line, _exit
void sim_fail(const char* cls, const char* fmt, ...) __attribute__((noreturn, format(printf, 2, 3)));
// soft violation: remembered (first one wins), the run continues; reported by sim_report_soft()
// after sim_end() if nothing fatal happened first
void sim_soft_fail(const char* cls, const char* fmt, ...) __attribute__((format(printf, 2, 3)));
void sim_report_soft(void);
// memory-safety-only mode (whole-library sanitizer checks): oracle violations are reported as
// status "incidental" after a leak check instead of "violation"
void sim_set_memonly(int on);
// harness asks whether the step budget hang handler should call back
typedef void (*sim_hang_cb)(char* buf, size_t n);
void sim_set_hang_describer(sim_hang_cb cb);
// short key appended to the class of a deadlock/hang ("hang:<key>"): what the run was waiting for
void sim_set_hang_keyer(sim_hang_cb cb);

// watch one address: callback on every atomic op on it (kind, old value read before op)
typedef void (*sim_watch_cb)(const void* addr, int kind, int tid);
void sim_watch(const void* addr, sim_watch_cb cb);

// post-operation watch on one 32-bit atomic word (used to monitor an internal spin lock):
// callback(kind, value before the operation, value after it, simulated thread id)
typedef void (*sim_watch32_cb)(int kind, uint32_t before, uint32_t after, int tid);
void sim_watch32(const void* addr, sim_watch32_cb cb);
void sim_watch32_post(int kind, uint32_t before, uint32_t after);
extern const volatile void* sim_watched32;

// result line (JSON, one line) for a finished run
void sim_result_line(char* buf, size_t n, const char* status, const char* cls, const char* msg);

// low level, used by the shims
void sim_point(int kind, const void* addr);

#ifdef __cplusplus
}
#endif
