// Default options for the sanitizer runtimes linked into the SIM+ASAN / SIM+TSAN engines.
// Non-inline and `used`: the runtimes look these symbols up at start-up.
extern "C" __attribute__((used, visibility("default"))) const char* __asan_default_options() {
  // exit code 77 classifies a sanitizer report; leaks are checked explicitly per run
  // (__lsan_do_recoverable_leak_check), not at process exit (children leave with _exit)
  return "exitcode=77:abort_on_error=0:detect_leaks=1:leak_check_at_exit=0:allocator_may_return_null=1:"
         "detect_stack_use_after_return=0:handle_segv=1:print_summary=1:symbolize=1";
}
extern "C" __attribute__((used, visibility("default"))) const char* __ubsan_default_options() {
  return "print_stacktrace=1:halt_on_error=1";
}
extern "C" __attribute__((used, visibility("default"))) const char* __lsan_default_options() {
  return "print_suppressions=0";
}
extern "C" __attribute__((used, visibility("default"))) const char* __tsan_default_options() {
  return "exitcode=77:halt_on_error=1:report_signal_unsafe=0:report_thread_leaks=0:second_deadlock_stack=0:"
         "history_size=4:die_after_fork=0";
}
