// Happens-before race detector used by simrt (see race.cpp).
#pragma once
#include <stddef.h>
#include <stdint.h>
#ifdef __cplusplus
extern "C" {
#endif
enum { RD_LOAD = 0, RD_STORE = 1, RD_RMW = 2 };
typedef void (*rd_report_cb)(const char* what, const char* siteA, int tidA, const char* siteB, int tidB, const void* addr);
extern int rd_busy; // >0 while the detector itself runs (its own frees need no shadow clearing)
int rd_on(void);
void rd_enable(int on, rd_report_cb cb);
void rd_thread_create(int parent, int child);
void rd_thread_join(int joiner, int child);
void rd_clear(const void* addr, size_t size);
void rd_acquire(int tid, const void* obj);
void rd_release(int tid, const void* obj);
void rd_atomic(int tid, const void* addr, int op, int mo);
void rd_fence(int tid, int mo);
void rd_access(int tid, void* pc, const void* addr, size_t size, int is_write);
void rd_access_labelled(int tid, const char* label, const void* addr, size_t size, int is_write);
void rd_ignore(int tid, int reads_delta, int writes_delta);
void rd_stats(uint64_t* plain, uint64_t* atomic, uint64_t* sync, uint64_t* declared);
#ifdef __cplusplus
}
#endif
