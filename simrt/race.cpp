// Order-aware happens-before race detector that runs inside the simulator (property C10).
//
// The simulator serialises all threads, so it sees every access of an execution in one total order;
// whether two conflicting accesses are *ordered by the program* is decided here with vector clocks,
// using only the edges the C++ memory model grants:
//   * release/acquire (and stronger) atomic operations on the same location, with release sequences
//     continued by read-modify-writes; a load always reads the latest store of the serial order;
//   * atomic_thread_fence: a release fence turns later relaxed stores into releases of the fence's
//     clock, an acquire fence turns earlier relaxed loads into acquires;
//   * mutex unlock -> lock, semaphore post -> wait, pthread_once / static-init guard completion ->
//     later callers, thread create -> start, thread exit -> join;
//   * dispenso's own TSAN annotations (happens-before/after, ignore-reads/writes regions, new memory),
//     because the property names them as part of the mechanism.
// A relaxed operation gives no edge.  Nothing else (simulated time, the serial order itself, futex
// wake-ups, condition variables) orders anything.
//
// Checked accesses: plain loads/stores executed by functions of the code under test (fine variants,
// classified by symbol as in simrt.cpp), byte-granular, plus accesses the harness declares for its
// payload objects (sim_race_access).  Compiled without instrumentation.
#include "race.h"

#include <cxxabi.h>
#include <dlfcn.h>
#include <stdio.h>
#include <stdlib.h>
#include <string.h>

#include <map>
#include <string>
#include <unordered_map>
#include <vector>

extern "C" const char* sim_symbol_of(void* pc);

namespace {

struct VC {
  std::vector<uint32_t> c;
  uint32_t get(int i) const {
    return (size_t)i < c.size() ? c[(size_t)i] : 0;
  }
  void set(int i, uint32_t v) {
    if ((size_t)i >= c.size())
      c.resize((size_t)i + 1, 0);
    c[(size_t)i] = v;
  }
  void join(const VC& o) {
    if (o.c.size() > c.size())
      c.resize(o.c.size(), 0);
    for (size_t i = 0; i < o.c.size(); ++i)
      if (o.c[i] > c[i])
        c[i] = o.c[i];
  }
  bool empty() const {
    return c.empty();
  }
};

struct Th {
  VC C;        // what this thread has synchronised with
  VC relFence; // C at the last release fence (empty: none)
  VC acqPend;  // clocks carried by values read with relaxed loads (claimed by an acquire fence)
  int ignR = 0, ignW = 0;
};

struct Acc {
  uint32_t tid = 0;
  uint32_t clk = 0; // 0: no access recorded
  uint32_t site = 0;
};
static const int kReaders = 3;
struct Cell {
  Acc w;
  Acc r[kReaders];
};
struct Word {
  Cell b[8];
};

struct State {
  std::vector<Th> th;
  std::map<uintptr_t, VC> sync;
  std::map<uintptr_t, Word> shadow;
  std::vector<std::string> sites; // site id -> text
  std::unordered_map<uintptr_t, uint32_t> pcSite;
  std::unordered_map<std::string, uint32_t> labelSite;
  uint64_t nPlain = 0, nAtomic = 0, nSync = 0, nDeclared = 0;
};
static State* S;
static int g_on;
static int g_dbg = -1;
static bool dbg() {
  if (g_dbg < 0)
    g_dbg = getenv("RD_TRACE") ? 1 : 0;
  return g_dbg != 0;
}
static rd_report_cb g_report;

struct Busy {
  Busy() {
    rd_busy++;
  }
  ~Busy() {
    rd_busy--;
  }
};

static void dumpVC(const char* what, const VC& v) {
  fprintf(stderr, "   %s [", what);
  for (size_t i = 0; i < v.c.size(); ++i)
    fprintf(stderr, "%s%u", i ? " " : "", v.c[i]);
  fprintf(stderr, "]\n");
}
static Th& T(int tid) {
  if ((size_t)tid >= S->th.size())
    S->th.resize((size_t)tid + 1);
  Th& t = S->th[(size_t)tid];
  if (t.C.get(tid) == 0)
    t.C.set(tid, 1);
  return t;
}
static void tick(int tid) {
  Th& t = T(tid);
  t.C.set(tid, t.C.get(tid) + 1);
}

static std::string shorten(const char* mangled) {
  int st = 0;
  char* d = abi::__cxa_demangle(mangled, nullptr, nullptr, &st);
  std::string s = (st == 0 && d) ? d : mangled;
  free(d);
  // drop template argument lists and the parameter list: stable, short class keys
  std::string out;
  int depth = 0;
  for (size_t i = 0; i < s.size(); ++i) {
    char ch = s[i];
    if (ch == '<' && !(out.size() >= 8 && out.compare(out.size() - 8, 8, "operator") == 0)) {
      depth++;
      continue;
    }
    if (ch == '>' && depth > 0) {
      depth--;
      continue;
    }
    if (depth)
      continue;
    if (ch == '(') {
      if (out.size() >= 8 && out.compare(out.size() - 8, 8, "operator") == 0 && i + 1 < s.size() && s[i + 1] == ')') {
        out += "()";
        ++i;
        continue;
      }
      break;
    }
    out.push_back(ch);
  }
  size_t sp = out.rfind(' ');
  if (sp != std::string::npos && out.find("operator ") == std::string::npos)
    out = out.substr(sp + 1);
  for (char& ch : out)
    if (ch == ' ' || ch == ':' )
      ch = ch == ' ' ? '_' : ':';
  if (out.size() > 90)
    out.resize(90);
  return out;
}

static uint32_t siteOfPc(void* pc) {
  uintptr_t a = (uintptr_t)pc;
  auto it = S->pcSite.find(a);
  if (it != S->pcSite.end())
    return it->second;
  Dl_info di;
  std::string name;
  const char* sym = sim_symbol_of(pc);
  if (sym)
    name = shorten(sym);
  else if (dladdr(pc, &di) && di.dli_sname)
    name = shorten(di.dli_sname);
  else {
    char buf[32];
    snprintf(buf, sizeof buf, "pc-%lx", (unsigned long)a);
    name = buf;
  }
  uint32_t id;
  auto l = S->labelSite.find(name);
  if (l != S->labelSite.end())
    id = l->second;
  else {
    id = (uint32_t)S->sites.size();
    S->sites.push_back(name);
    S->labelSite[name] = id;
  }
  S->pcSite[a] = id;
  return id;
}
static uint32_t siteOfLabel(const char* label) {
  std::string name = std::string("harness:") + label;
  auto l = S->labelSite.find(name);
  if (l != S->labelSite.end())
    return l->second;
  uint32_t id = (uint32_t)S->sites.size();
  S->sites.push_back(name);
  S->labelSite[name] = id;
  return id;
}

static void report(const Acc& prev, bool prevWrite, int tid, uint32_t site, bool curWrite, uintptr_t addr) {
  if (!g_report)
    return;
  const std::string& a = S->sites[prev.site];
  const std::string& b = S->sites[site];
  char what[16];
  snprintf(what, sizeof what, "%s-%s", prevWrite ? "write" : "read", curWrite ? "write" : "read");
  g_report(what, a.c_str(), (int)prev.tid, b.c_str(), tid, (const void*)addr);
}

static inline bool ordered(const Acc& a, const Th& t) {
  return a.clk <= t.C.get((int)a.tid);
}

static void accessBytes(int tid, uint32_t site, uintptr_t addr, size_t size, bool isWrite) {
  Th& t = T(tid);
  uint32_t myclk = t.C.get(tid);
  for (size_t k = 0; k < size; ++k) {
    uintptr_t a = addr + k;
    Word& w = S->shadow[a >> 3];
    Cell& c = w.b[a & 7];
    if (c.w.clk && (int)c.w.tid != tid && !ordered(c.w, t)) {
      report(c.w, true, tid, site, isWrite, a);
      c.w.clk = 0; // one report per pair of accesses
    }
    if (isWrite) {
      for (int i = 0; i < kReaders; ++i) {
        Acc& r = c.r[i];
        if (r.clk && (int)r.tid != tid && !ordered(r, t))
          report(r, false, tid, site, true, a);
        r.clk = 0;
      }
      c.w.tid = (uint32_t)tid;
      c.w.clk = myclk;
      c.w.site = site;
    } else {
      int slot = -1;
      for (int i = 0; i < kReaders; ++i)
        if (c.r[i].clk && (int)c.r[i].tid == tid)
          slot = i;
      if (slot < 0)
        for (int i = 0; i < kReaders; ++i)
          if (!c.r[i].clk || ordered(c.r[i], t)) {
            slot = i;
            break;
          }
      if (slot < 0)
        slot = (int)(a % kReaders); // forget one concurrent reader (loses reports, never adds one)
      c.r[slot].tid = (uint32_t)tid;
      c.r[slot].clk = myclk;
      c.r[slot].site = site;
    }
  }
}

} // namespace

extern "C" {

int rd_busy;

int rd_on(void) {
  return g_on;
}
void rd_enable(int on, rd_report_cb cb) {
  Busy b;
  if (on && !S)
    S = new State();
  g_on = on;
  g_report = cb;
}

void rd_thread_create(int parent, int child) {
  if (!g_on)
    return;
  Busy b;
  Th& p = T(parent);
  VC pc = p.C;
  Th& c = T(child);
  c.C = pc;
  c.C.set(child, 1);
  tick(parent);
  S->nSync++;
}
void rd_thread_join(int joiner, int child) {
  if (!g_on)
    return;
  Busy b;
  VC cc = T(child).C;
  T(joiner).C.join(cc);
  S->nSync++;
}
void rd_clear(const void* addr, size_t size) {
  if (!g_on || !S || !size)
    return;
  Busy b;
  uintptr_t lo = (uintptr_t)addr, hi = lo + size;
  auto it = S->shadow.lower_bound(lo >> 3);
  while (it != S->shadow.end() && (it->first << 3) < hi) {
    uintptr_t base = it->first << 3;
    if (base >= lo && base + 8 <= hi) {
      it = S->shadow.erase(it);
      continue;
    }
    for (int k = 0; k < 8; ++k)
      if (base + (uintptr_t)k >= lo && base + (uintptr_t)k < hi)
        it->second.b[k] = Cell();
    ++it;
  }
  // synchronisation objects living in the range die with it
  S->sync.erase(S->sync.lower_bound(lo), S->sync.lower_bound(hi));
}

void rd_acquire(int tid, const void* obj) {
  if (!g_on)
    return;
  Busy b;
  if (dbg())
    fprintf(stderr, "RD t%d acquire-obj %p\n", tid, obj);
  auto it = S->sync.find((uintptr_t)obj);
  if (it != S->sync.end())
    T(tid).C.join(it->second);
  S->nSync++;
}
void rd_release(int tid, const void* obj) {
  if (!g_on)
    return;
  Busy b;
  if (dbg())
    fprintf(stderr, "RD t%d release-obj %p\n", tid, obj);
  VC mine = T(tid).C;
  S->sync[(uintptr_t)obj].join(mine);
  tick(tid);
  S->nSync++;
}

// memory orders as in <atomic>: 0 relaxed 1 consume 2 acquire 3 release 4 acq_rel 5 seq_cst
static inline bool isAcq(int mo) {
  return mo == 1 || mo == 2 || mo == 4 || mo == 5;
}
static inline bool isRel(int mo) {
  return mo == 3 || mo == 4 || mo == 5;
}

void rd_atomic(int tid, const void* addr, int op, int mo) {
  if (!g_on)
    return;
  Busy b;
  S->nAtomic++;
  Th& t = T(tid);
  uintptr_t a = (uintptr_t)addr;
  if (dbg())
    fprintf(stderr, "RD t%d atomic %s mo%d %p\n", tid, op == RD_LOAD ? "load" : (op == RD_STORE ? "store" : "rmw"), mo, addr);
  if (op == RD_LOAD) {
    auto it = S->sync.find(a);
    if (it == S->sync.end())
      return;
    if (dbg())
      dumpVC("L", it->second);
    if (isAcq(mo))
      t.C.join(it->second);
    else
      t.acqPend.join(it->second);
    return;
  }
  if (op == RD_STORE) {
    if (isRel(mo)) {
      // heads a new release sequence
      S->sync[a] = t.C;
      tick(tid);
    } else if (!t.relFence.empty()) {
      // relaxed store after a release fence: releases the fence's clock.  (A relaxed store without
      // a fence leaves the location's clock alone, as ThreadSanitizer does; strictly it would end
      // the release sequence, which could only add reports.)
      S->sync[a].join(t.relFence);
    }
    return;
  }
  // read-modify-write: acquire side, then release side; continues release sequences
  VC& L = S->sync[a];
  if (isAcq(mo))
    t.C.join(L);
  else
    t.acqPend.join(L);
  if (isRel(mo)) {
    VC mine = t.C;
    L.join(mine);
    tick(tid);
  } else if (!t.relFence.empty()) {
    L.join(t.relFence);
  }
}

void rd_fence(int tid, int mo) {
  if (!g_on)
    return;
  Busy b;
  Th& t = T(tid);
  if (dbg())
    fprintf(stderr, "RD t%d fence mo%d\n", tid, mo);
  if (isAcq(mo)) {
    VC p = t.acqPend;
    t.C.join(p);
  }
  if (isRel(mo)) {
    t.relFence = t.C;
    tick(tid);
  }
}

void rd_access(int tid, void* pc, const void* addr, size_t size, int is_write) {
  if (!g_on)
    return;
  Th& t0 = T(tid);
  if (is_write ? t0.ignW : t0.ignR)
    return;
  Busy b;
  S->nPlain++;
  accessBytes(tid, siteOfPc(pc), (uintptr_t)addr, size, is_write != 0);
}
void rd_access_labelled(int tid, const char* label, const void* addr, size_t size, int is_write) {
  if (!g_on)
    return;
  Busy b;
  S->nDeclared++;
  if (dbg())
  {
    fprintf(stderr, "RD t%d declared %s %s %p clk=%u\n", tid, is_write ? "W" : "R", label, addr, T(tid).C.get(tid));
    dumpVC("C", T(tid).C);
  }
  accessBytes(tid, siteOfLabel(label), (uintptr_t)addr, size, is_write != 0);
}
void rd_ignore(int tid, int reads_delta, int writes_delta) {
  if (!g_on)
    return;
  Busy b;
  Th& t = T(tid);
  t.ignR += reads_delta;
  t.ignW += writes_delta;
  if (t.ignR < 0)
    t.ignR = 0;
  if (t.ignW < 0)
    t.ignW = 0;
}
void rd_stats(uint64_t* plain, uint64_t* atomic, uint64_t* sync, uint64_t* declared) {
  *plain = S ? S->nPlain : 0;
  *atomic = S ? S->nAtomic : 0;
  *sync = S ? S->nSync : 0;
  *declared = S ? S->nDeclared : 0;
}

} // extern "C"
