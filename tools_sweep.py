#!/usr/bin/env python3
"""Developer helper: run every registered property for a few seconds on both variants and print the
class keys seen (used to curate known_findings.txt; not part of any registered check)."""
import json, os, subprocess, sys, time
from collections import Counter, defaultdict
ROOT = os.path.dirname(os.path.abspath(__file__))
secs = float(sys.argv[1]) if len(sys.argv) > 1 else 6
only = sys.argv[2].split(",") if len(sys.argv) > 2 and sys.argv[2] != "-" else None
variants = sys.argv[3].split(",") if len(sys.argv) > 3 else ["sim-default", "sim-tiny"]
out = subprocess.run([ROOT + "/build/sim-default/simcheck", "--list"], stdout=subprocess.PIPE, text=True).stdout
props = sorted(set(l.split()[0] for l in out.splitlines() if l.strip()))
if only:
    props = [p for p in props if p in only]
os.makedirs("/tmp/sweep", exist_ok=True)
for p in props:
    procs = []
    for i, v in enumerate((variants * 6)[:6]):
        cmd = ["taskset", "-c", str(1 + i), ROOT + "/build/%s/simcheck" % v, "--prop", p, "--seed-base", str(900000000 + i * 1000000),
               "--count", "1000000", "--time", str(secs), "--outdir", "/tmp/sweep"]
        procs.append((v, subprocess.Popen(cmd, stdout=subprocess.PIPE, stderr=subprocess.DEVNULL, text=True)))
    c = Counter(); ex = {}; n = 0
    for v, pr in procs:
        o, _ = pr.communicate()
        for l in o.splitlines():
            if not l.startswith("{"): continue
            r = json.loads(l); n += 1
            if r["status"] != "ok":
                k = "%s:%s" % (r.get("workload", "?"), r.get("class"))
                c[k] += 1
                ex.setdefault(k, (v, r["seed"], r.get("msg", "")[:160]))
    print("%s runs=%d flagged=%d" % (p, n, sum(c.values())))
    for k, cnt in c.most_common():
        print("   %5d  %s   e.g. %s" % (cnt, k, ex[k]))
    sys.stdout.flush()
