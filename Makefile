# Builds the simulation binaries from /repo's current working tree.
#   build/sim-default/simcheck  build/sim-tiny/simcheck   (SIM engine, two tunings)
REPO ?= /repo
CXX := clang++
B := build
GUARD := -DDISPENSO_VERIF_SIM

COMMON := -std=c++14 -O1 -g -DNDEBUG $(GUARD) -I$(REPO) -I$(REPO)/dispenso/third-party -pthread -Wno-unused-command-line-argument
TSANPASS := -fsanitize=thread -mllvm -tsan-instrument-memory-accesses=0 -mllvm -tsan-instrument-func-entry-exit=0 -mllvm -tsan-instrument-memintrinsics=0
TINY := -DDISPENSO_TUNE_WAKE_GROUP_SIZE=2 -DDISPENSO_TUNE_STEAL_RING_SHARING=2 -DDISPENSO_TUNE_FIXED_SPIN_ITERS=8 \
        -DDISPENSO_TUNE_SPIN_CHECK_INTERVAL=4 -DDISPENSO_TUNE_QUEUE_CHECK_INTERVAL=2 -DDISPENSO_TUNE_CROSS_RING_FAIL_THRESHOLD=2 \
        -DDISPENSO_TUNE_WAKE_BRANCH_FACTOR=2

DISP_SRCS := $(filter-out $(REPO)/dispenso/fast_math/%,$(wildcard $(REPO)/dispenso/*.cpp) $(wildcard $(REPO)/dispenso/detail/*.cpp))
WL_SRCS := $(wildcard harness/w_*.cpp)
RT_SRCS := simrt/simrt.cpp simrt/tsan_shim.cpp simrt/san_options.cpp simrt/race.cpp harness/main.cpp
# free()/realloc() interposer for the race detector: not where a sanitizer runtime owns them
RTX_sim-default := simrt/race_free.cpp
RTX_sim-tiny := simrt/race_free.cpp
RTX_fine-default := simrt/race_free.cpp
RTX_fine-tiny := simrt/race_free.cpp
RTX_asan-default :=
RTX_asan-nosba :=

ASANFLAGS := -fsanitize=address,undefined -fno-sanitize-recover=all -fno-omit-frame-pointer -fno-inline \
             -fsanitize-coverage=trace-pc-guard,no-prune -fsanitize-coverage-ignorelist=simrt/cov_ignorelist.txt
# fine-*: the tsan pass also instruments plain memory accesses (they become simulation points)
FINEPASS := -fno-inline -fsanitize=thread -mllvm -tsan-instrument-func-entry-exit=0
VARIANTS := sim-default sim-tiny fine-default fine-tiny asan-default asan-nosba
FLAGS_sim-default := $(TSANPASS)
FLAGS_sim-tiny := $(TSANPASS) $(TINY)
FLAGS_fine-default := $(FINEPASS)
FLAGS_fine-tiny := $(FINEPASS) $(TINY)
FLAGS_asan-default := $(ASANFLAGS)
FLAGS_asan-nosba := $(ASANFLAGS) $(TINY) -DDISPENSO_NO_SMALL_BUFFER_ALLOCATOR
LINK_sim-default :=
LINK_sim-tiny :=
LINK_fine-default :=
LINK_fine-tiny :=
LINK_asan-default := -fsanitize=address,undefined
LINK_asan-nosba := -fsanitize=address,undefined

all: $(foreach v,$(VARIANTS),$(B)/$(v)/simcheck)
sim: $(B)/sim-default/simcheck $(B)/sim-tiny/simcheck $(B)/fine-default/simcheck $(B)/fine-tiny/simcheck

define VARIANT_RULES
$(B)/$(1)/disp/%.o: $(REPO)/dispenso/%.cpp
	@mkdir -p $$(dir $$@)
	$(CXX) $(COMMON) $$(FLAGS_$(1)) -MMD -MP -c $$< -o $$@
$(B)/$(1)/wl/%.o: harness/%.cpp
	@mkdir -p $$(dir $$@)
	$(CXX) $(COMMON) $$(FLAGS_$(1)) -MMD -MP -c $$< -o $$@
$(B)/$(1)/rt/%.o: %.cpp
	@mkdir -p $$(dir $$@)
	$(CXX) $(COMMON) -MMD -MP -c $$< -o $$@
OBJS_$(1) := $$(patsubst $(REPO)/dispenso/%.cpp,$(B)/$(1)/disp/%.o,$(DISP_SRCS)) \
             $$(patsubst harness/%.cpp,$(B)/$(1)/wl/%.o,$(WL_SRCS)) \
             $$(patsubst %.cpp,$(B)/$(1)/rt/%.o,$(RT_SRCS) $$(RTX_$(1)))
$(B)/$(1)/simcheck: $$(OBJS_$(1))
	$(CXX) -rdynamic $$(LINK_$(1)) -o $$@ $$^ -ldl -lpthread
-include $$(OBJS_$(1):.o=.d)
endef
$(foreach v,$(VARIANTS),$(eval $(call VARIANT_RULES,$(v))))

clean:
	rm -rf $(B)
.PHONY: all clean
